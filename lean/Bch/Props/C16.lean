import Bch.Proofs.BlockCache
/-
C16 — block and transaction wrappers always agree with the wire message they wrap.

Model: `Bch/Model/BlockCache.lean` (memoising wrappers of /repo/block.go and /repo/tx.go).
Helper definitions (all in `Bch/Proofs/BlockCache.lean`):
* `run W s calls : St × List Res`       — fold of `step` over an accessor script;
* `Inv W s`                              — well-formedness of a cache state (`Inv.raw` spells it out);
* `IsCtor W s`                           — `s = initMsg ∨ s = initBytes W.ser` (the constructors);
* `Obj = bytes | blockHash | tx k | txHash k`, `handleOf W s : Obj → Option Nat`
                                         — the object identity cached in `s` for each memoised object;
* `exposed W c r`, `observed W calls rs` — the (object, handle) pairs a call / a run hands out;
* `canon : List Res → List Res`          — handles renamed by first occurrence (as the Go harness does
                                           with real pointers);
* `Delimits`, `LocsDelimit`, `newBlockFromBytes` — external laws of `wire`, used as explicit hypotheses.

Everything is for arbitrary wire results `W`, arbitrary scripts, arbitrary (also negative / too large)
indices.  The only hypothesis on `W` is `W.ser ≠ []` (a block serialisation is never empty: it starts
with an 80 byte header); with an empty serialisation `Bytes()` would never be cached
(`len(b.serializedBlock) != 0`), so "same object" would be false — the hypothesis is necessary.
-/
namespace Bch.Props.C16
open Bch Bch.Model.BlockCache Bch.Proofs.BlockCache

/-! ## the invariant -/

theorem C16_inv_initMsg (W : Wire) : Inv W initMsg := inv_initMsg W

theorem C16_inv_initBytes (W : Wire) (_h : W.ser ≠ []) : Inv W (initBytes W.ser) :=
  inv_initBytes W W.ser (Or.inl rfl)

/-- every accessor call preserves the invariant (no hypothesis on `W`) -/
theorem C16_inv_step (W : Wire) (s : St) (c : Call) (h : Inv W s) : Inv W (step W s c).1 := inv_step h c

theorem C16_inv_run (W : Wire) (s : St) (calls : List Call) (h : Inv W s) : Inv W (run W s calls).1 :=
  (run_inv calls h).1

/-- the invariant, read off the raw fields of the state: slice shape, completion flag, cached bytes,
handles below the fresh counter, handles of all kinds pairwise distinct, slot `k` has index `k` -/
theorem C16_inv_meaning (W : Wire) (s : St) (hI : Inv W s) :
    (∀ l, s.txs = some l → l.length = numTx W ∨ l = []) ∧
    (s.txnsGenerated = true → ∃ l, s.txs.getD [] = l ∧ l.length = numTx W ∧
        ∀ k, k < numTx W → ∃ w, l[k]? = some (some w)) ∧
    (∀ b h, s.serialized = some (b, h) → b ≠ [] → b = W.ser ∧ h < s.next) ∧
    (∀ h, s.blockHash = some h → h < s.next) ∧
    (∀ b h h', s.serialized = some (b, h) → b ≠ [] → s.blockHash = some h' → h ≠ h') ∧
    (∀ (l : List (Option TxW)) (k : Nat) (w : TxW), s.txs = some l → l[k]? = some (some w) →
        w.index = (k : Int) ∧ w.handle < s.next ∧ s.blockHash ≠ some w.handle ∧
        (∀ b, b ≠ [] → s.serialized ≠ some (b, w.handle)) ∧
        ∀ h, w.hashHandle = some h → h < s.next ∧ h ≠ w.handle ∧ s.blockHash ≠ some h ∧
          ∀ b, b ≠ [] → s.serialized ≠ some (b, h)) ∧
    (∀ (l : List (Option TxW)) (k₁ k₂ : Nat) (w₁ w₂ : TxW), s.txs = some l →
        l[k₁]? = some (some w₁) → l[k₂]? = some (some w₂) → k₁ ≠ k₂ →
        w₁.handle ≠ w₂.handle ∧ w₁.hashHandle ≠ some w₂.handle ∧
        (∀ h, w₁.hashHandle = some h → w₂.hashHandle ≠ some h)) := hI.raw

/-- caches are only ever filled: a handle stored for an object is never changed by later calls -/
theorem C16_handles_stable (W : Wire) (s : St) (calls : List Call) (hI : Inv W s) (o : Obj) (h : Nat)
    (ho : handleOf W s o = some h) : handleOf W (run W s calls).1 o = some h :=
  (run_inv calls hI).2 o h ho

/-! ## coherence with the wire message (headline) -/

/-- **C16_cache_coherent**, for every well-formed initial cache state (this includes both constructors,
see `C16_cache_coherent`): in every accessor script every result is the fresh computation from the
wire message; an out-of-range index (negative or ≥ number of transactions) gives `outOfRange`
and nothing else; in-range `Tx i` carries index `i`. -/
theorem C16_cache_coherent_of_inv (W : Wire) (hser : W.ser ≠ []) (s₀ : St) (h₀ : Inv W s₀)
    (calls : List Call) :
    (run W s₀ calls).2.length = calls.length ∧
    ∀ (p : Nat) (c : Call) (r : Res), calls[p]? = some c → (run W s₀ calls).2[p]? = some r →
      match c with
      | .tx i =>
        (0 ≤ i ∧ i < (numTx W : Int) → ∃ v h, W.txHashes[i.toNat]? = some v ∧ r = .tx v i h) ∧
        (i < 0 ∨ (numTx W : Int) ≤ i → r = .outOfRange)
      | .txHash i =>
        (0 ≤ i ∧ i < (numTx W : Int) → ∃ v h, W.txHashes[i.toNat]? = some v ∧ r = .hash v h) ∧
        (i < 0 ∨ (numTx W : Int) ≤ i → r = .outOfRange)
      | .hash => ∃ h, r = .hash W.hash h
      | .bytes => ∃ h, r = .bytes W.ser h
      | .txLoc => r = .locs W.txLocs
      | .transactions => ∃ l, r = .txs l ∧ l.length = numTx W ∧
          ∀ (k : Nat) (v : Bytes), W.txHashes[k]? = some v → ∃ h, l[k]? = some (v, (k : Int), h) := by
  refine ⟨run_length W calls s₀, ?_⟩
  intro p c r hc hr
  obtain ⟨rfl, _⟩ := run_at hser h₀ calls hc hr
  cases c with
  | tx i =>
    refine ⟨fun hr => ?_, fun hr => render_tx_out _ (by unfold inRange; omega)⟩
    obtain ⟨v, hv, e⟩ := render_tx_in (handleOf W (run W s₀ calls).1) (W := W) (i := i) hr
    exact ⟨v, _, hv, e⟩
  | txHash i =>
    refine ⟨fun hr => ?_, fun hr => render_txHash_out _ (by unfold inRange; omega)⟩
    obtain ⟨v, hv, e⟩ := render_txHash_in (handleOf W (run W s₀ calls).1) (W := W) (i := i) hr
    exact ⟨v, _, hv, e⟩
  | hash => exact ⟨_, rfl⟩
  | bytes => exact ⟨_, rfl⟩
  | txLoc => rfl
  | transactions =>
    obtain ⟨l, e, hl, hk⟩ := render_transactions (W := W) (handleOf W (run W s₀ calls).1)
    exact ⟨l, e, hl, fun k v hv => ⟨_, hk k v hv⟩⟩

/-- **C16_cache_coherent** (headline, full, histories): for both constructors (from message: all caches
empty; from bytes: the consumed prefix = wire serialisation cached) and every interleaving of
`Tx i / Transactions / TxHash i / Hash / Bytes / TxLoc` with arbitrary `i : Int`. -/
theorem C16_cache_coherent (W : Wire) (hser : W.ser ≠ []) (s₀ : St)
    (h₀ : s₀ = initMsg ∨ s₀ = initBytes W.ser) (calls : List Call) :
    (run W s₀ calls).2.length = calls.length ∧
    ∀ (p : Nat) (c : Call) (r : Res), calls[p]? = some c → (run W s₀ calls).2[p]? = some r →
      match c with
      | .tx i =>
        (0 ≤ i ∧ i < (numTx W : Int) → ∃ v h, W.txHashes[i.toNat]? = some v ∧ r = .tx v i h) ∧
        (i < 0 ∨ (numTx W : Int) ≤ i → r = .outOfRange)
      | .txHash i =>
        (0 ≤ i ∧ i < (numTx W : Int) → ∃ v h, W.txHashes[i.toNat]? = some v ∧ r = .hash v h) ∧
        (i < 0 ∨ (numTx W : Int) ≤ i → r = .outOfRange)
      | .hash => ∃ h, r = .hash W.hash h
      | .bytes => ∃ h, r = .bytes W.ser h
      | .txLoc => r = .locs W.txLocs
      | .transactions => ∃ l, r = .txs l ∧ l.length = numTx W ∧
          ∀ (k : Nat) (v : Bytes), W.txHashes[k]? = some v → ∃ h, l[k]? = some (v, (k : Int), h) :=
  C16_cache_coherent_of_inv W hser s₀ (IsCtor.inv h₀) calls

/-- the out-of-range clause on its own, for a single call in any well-formed state and without any
hypothesis on `W`: an error result, and the state is untouched -/
theorem C16_out_of_range (W : Wire) (s : St) (i : Int) (hi : i < 0 ∨ (numTx W : Int) ≤ i) :
    step W s (.tx i) = (s, .outOfRange) ∧ step W s (.txHash i) = (s, .outOfRange) := by
  have hr : ¬ inRange W i := by unfold inRange; omega
  simp [step, getTx_oor W s i hr]

/-! ## object identity -/

/-- every handle handed out anywhere in a run is the handle stored for that object in the final state -/
theorem C16_observed_stored (W : Wire) (hser : W.ser ≠ []) (s₀ : St) (h₀ : Inv W s₀) (calls : List Call)
    (o : Obj) (h : Nat) (hm : (o, h) ∈ observed W calls (run W s₀ calls).2) :
    handleOf W (run W s₀ calls).1 o = some h := observed_stored hser h₀ calls hm

/-- **C16_same_object** (general form): among all (object, handle) pairs handed out during a run
— `Tx i` exposes `tx i`, `Transactions` exposes `tx 0 … tx (n-1)` in order, `TxHash i` exposes `txHash i`,
`Hash` exposes `blockHash`, `Bytes` exposes `bytes` — equal objects have equal handles and different
objects (of the same or of different kinds) have different handles. -/
theorem C16_same_object (W : Wire) (hser : W.ser ≠ []) (s₀ : St)
    (h₀ : s₀ = initMsg ∨ s₀ = initBytes W.ser) (calls : List Call)
    (o₁ o₂ : Obj) (h₁ h₂ : Nat)
    (m₁ : (o₁, h₁) ∈ observed W calls (run W s₀ calls).2)
    (m₂ : (o₂, h₂) ∈ observed W calls (run W s₀ calls).2) : o₁ = o₂ ↔ h₁ = h₂ := by
  have hI := IsCtor.inv h₀
  have a := observed_stored hser hI calls m₁
  have b := observed_stored hser hI calls m₂
  constructor
  · intro e; subst e; rw [a] at b; exact Option.some.inj b
  · intro e; subst e; exact (run_inv calls hI).1.inj o₁ o₂ h₁ a b

/-- the same with explicit positions in the script -/
theorem C16_same_object_at (W : Wire) (hser : W.ser ≠ []) (s₀ : St)
    (h₀ : s₀ = initMsg ∨ s₀ = initBytes W.ser) (calls : List Call)
    (p q : Nat) (c₁ c₂ : Call) (r₁ r₂ : Res)
    (hc₁ : calls[p]? = some c₁) (hr₁ : (run W s₀ calls).2[p]? = some r₁)
    (hc₂ : calls[q]? = some c₂) (hr₂ : (run W s₀ calls).2[q]? = some r₂)
    (o₁ o₂ : Obj) (h₁ h₂ : Nat) (m₁ : (o₁, h₁) ∈ exposed W c₁ r₁) (m₂ : (o₂, h₂) ∈ exposed W c₂ r₂) :
    o₁ = o₂ ↔ h₁ = h₂ := by
  have hI := IsCtor.inv h₀
  have a := exposed_stored hser hI calls hc₁ hr₁ m₁
  have b := exposed_stored hser hI calls hc₂ hr₂ m₂
  constructor
  · intro e; subst e; rw [a] at b; exact Option.some.inj b
  · intro e; subst e; exact (run_inv calls hI).1.inj o₁ o₂ h₁ a b

/-- repeating a call (anywhere later or earlier in the script) returns the identical result, value and
object: `Hash`, `Bytes`, `Transactions`, `TxLoc`, and `Tx i` / `TxHash i` for the same `i` -/
theorem C16_repeat_same (W : Wire) (hser : W.ser ≠ []) (s₀ : St)
    (h₀ : s₀ = initMsg ∨ s₀ = initBytes W.ser) (calls : List Call) (p q : Nat) (c : Call)
    (hp : calls[p]? = some c) (hq : calls[q]? = some c) :
    (run W s₀ calls).2[p]? = (run W s₀ calls).2[q]? := by
  have h := (run_spec hser calls (IsCtor.inv h₀)).1
  rw [h, List.getElem?_map, List.getElem?_map, hp, hq]

/-- two `Tx` results carry the same handle iff they are for the same index -/
theorem C16_same_object_tx (W : Wire) (hser : W.ser ≠ []) (s₀ : St)
    (h₀ : s₀ = initMsg ∨ s₀ = initBytes W.ser) (calls : List Call) (p q : Nat) (i j : Int)
    (v₁ v₂ : Bytes) (x₁ x₂ : Int) (h₁ h₂ : Nat)
    (hc₁ : calls[p]? = some (.tx i)) (hr₁ : (run W s₀ calls).2[p]? = some (.tx v₁ x₁ h₁))
    (hc₂ : calls[q]? = some (.tx j)) (hr₂ : (run W s₀ calls).2[q]? = some (.tx v₂ x₂ h₂)) :
    h₁ = h₂ ↔ i = j := by
  have hI := IsCtor.inv h₀
  have ri : inRange W i := by
    refine Decidable.byContradiction fun hn => ?_
    have := (run_at hser hI calls hc₁ hr₁).1
    rw [render_tx_out _ hn] at this; cases this
  have rj : inRange W j := by
    refine Decidable.byContradiction fun hn => ?_
    have := (run_at hser hI calls hc₂ hr₂).1
    rw [render_tx_out _ hn] at this; cases this
  have := C16_same_object_at W hser s₀ h₀ calls p q _ _ _ _ hc₁ hr₁ hc₂ hr₂ (.tx i.toNat) (.tx j.toNat) h₁ h₂
    (by simp [exposed, objsOfCall, ri, resHandles]) (by simp [exposed, objsOfCall, rj, resHandles])
  rw [← this]
  have a := inRange_toNat ri
  have b := inRange_toNat rj
  constructor
  · intro e; injection e with e; omega
  · intro e; rw [e]

/-- two `TxHash` results carry the same hash object iff they are for the same index -/
theorem C16_same_object_txHash (W : Wire) (hser : W.ser ≠ []) (s₀ : St)
    (h₀ : s₀ = initMsg ∨ s₀ = initBytes W.ser) (calls : List Call) (p q : Nat) (i j : Int)
    (v₁ v₂ : Bytes) (h₁ h₂ : Nat)
    (hc₁ : calls[p]? = some (.txHash i)) (hr₁ : (run W s₀ calls).2[p]? = some (.hash v₁ h₁))
    (hc₂ : calls[q]? = some (.txHash j)) (hr₂ : (run W s₀ calls).2[q]? = some (.hash v₂ h₂)) :
    h₁ = h₂ ↔ i = j := by
  have hI := IsCtor.inv h₀
  have ri : inRange W i := by
    refine Decidable.byContradiction fun hn => ?_
    have := (run_at hser hI calls hc₁ hr₁).1
    rw [render_txHash_out _ hn] at this; cases this
  have rj : inRange W j := by
    refine Decidable.byContradiction fun hn => ?_
    have := (run_at hser hI calls hc₂ hr₂).1
    rw [render_txHash_out _ hn] at this; cases this
  have := C16_same_object_at W hser s₀ h₀ calls p q _ _ _ _ hc₁ hr₁ hc₂ hr₂
    (.txHash i.toNat) (.txHash j.toNat) h₁ h₂
    (by simp [exposed, objsOfCall, ri, resHandles]) (by simp [exposed, objsOfCall, rj, resHandles])
  rw [← this]
  have a := inRange_toNat ri
  have b := inRange_toNat rj
  constructor
  · intro e; injection e with e; omega
  · intro e; rw [e]

/-- `Transactions()` returns in slot `i` the very wrapper (same value, index, handle) that `Tx i`
returns, whether `Tx i` was called before or after -/
theorem C16_same_object_transactions (W : Wire) (hser : W.ser ≠ []) (s₀ : St)
    (h₀ : s₀ = initMsg ∨ s₀ = initBytes W.ser) (calls : List Call) (p q : Nat) (i : Int)
    (l : List (Bytes × Int × Nat)) (v : Bytes) (x : Int) (h : Nat)
    (hc₁ : calls[p]? = some .transactions) (hr₁ : (run W s₀ calls).2[p]? = some (.txs l))
    (hc₂ : calls[q]? = some (.tx i)) (hr₂ : (run W s₀ calls).2[q]? = some (.tx v x h)) :
    l[i.toNat]? = some (v, x, h) := by
  have hI := IsCtor.inv h₀
  have e₁ := (run_at hser hI calls hc₁ hr₁).1
  have e₂ := (run_at hser hI calls hc₂ hr₂).1
  have ri : inRange W i := by
    refine Decidable.byContradiction fun hn => ?_
    rw [render_tx_out _ hn] at e₂; cases e₂
  obtain ⟨v', hv', e'⟩ := render_tx_in (handleOf W (run W s₀ calls).1) ri
  rw [e'] at e₂
  obtain ⟨l', el, _, hk⟩ := render_transactions (W := W) (handleOf W (run W s₀ calls).1)
  rw [el] at e₁
  cases e₁; cases e₂
  rw [hk i.toNat v hv', (inRange_toNat ri).2]

/-- handles of different kinds of object never collide: a transaction wrapper, a transaction hash,
the block hash and the serialised bytes are four different objects -/
theorem C16_kinds_disjoint (W : Wire) (hser : W.ser ≠ []) (s₀ : St)
    (h₀ : s₀ = initMsg ∨ s₀ = initBytes W.ser) (calls : List Call)
    (p₁ p₂ p₃ p₄ : Nat) (i j : Int) (v₁ v₂ v₃ v₄ : Bytes) (x : Int) (h₁ h₂ h₃ h₄ : Nat)
    (c₁ : calls[p₁]? = some (.tx i)) (r₁ : (run W s₀ calls).2[p₁]? = some (.tx v₁ x h₁))
    (c₂ : calls[p₂]? = some (.txHash j)) (r₂ : (run W s₀ calls).2[p₂]? = some (.hash v₂ h₂))
    (c₃ : calls[p₃]? = some .hash) (r₃ : (run W s₀ calls).2[p₃]? = some (.hash v₃ h₃))
    (c₄ : calls[p₄]? = some .bytes) (r₄ : (run W s₀ calls).2[p₄]? = some (.bytes v₄ h₄)) :
    h₁ ≠ h₂ ∧ h₁ ≠ h₃ ∧ h₁ ≠ h₄ ∧ h₂ ≠ h₃ ∧ h₂ ≠ h₄ ∧ h₃ ≠ h₄ := by
  have hI := IsCtor.inv h₀
  have ri : inRange W i := by
    refine Decidable.byContradiction fun hn => ?_
    have := (run_at hser hI calls c₁ r₁).1
    rw [render_tx_out _ hn] at this; cases this
  have rj : inRange W j := by
    refine Decidable.byContradiction fun hn => ?_
    have := (run_at hser hI calls c₂ r₂).1
    rw [render_txHash_out _ hn] at this; cases this
  have m₁ : (Obj.tx i.toNat, h₁) ∈ exposed W (.tx i) (.tx v₁ x h₁) := by
    simp [exposed, objsOfCall, ri, resHandles]
  have m₂ : (Obj.txHash j.toNat, h₂) ∈ exposed W (.txHash j) (.hash v₂ h₂) := by
    simp [exposed, objsOfCall, rj, resHandles]
  have m₃ : (Obj.blockHash, h₃) ∈ exposed W .hash (.hash v₃ h₃) := by simp [exposed, objsOfCall, resHandles]
  have m₄ : (Obj.bytes, h₄) ∈ exposed W .bytes (.bytes v₄ h₄) := by simp [exposed, objsOfCall, resHandles]
  have k := C16_same_object_at W hser s₀ h₀ calls
  refine ⟨?_, ?_, ?_, ?_, ?_, ?_⟩
  · intro e; have := (k _ _ _ _ _ _ c₁ r₁ c₂ r₂ _ _ _ _ m₁ m₂).mpr e; cases this
  · intro e; have := (k _ _ _ _ _ _ c₁ r₁ c₃ r₃ _ _ _ _ m₁ m₃).mpr e; cases this
  · intro e; have := (k _ _ _ _ _ _ c₁ r₁ c₄ r₄ _ _ _ _ m₁ m₄).mpr e; cases this
  · intro e; have := (k _ _ _ _ _ _ c₂ r₂ c₃ r₃ _ _ _ _ m₂ m₃).mpr e; cases this
  · intro e; have := (k _ _ _ _ _ _ c₂ r₂ c₄ r₄ _ _ _ _ m₂ m₄).mpr e; cases this
  · intro e; have := (k _ _ _ _ _ _ c₃ r₃ c₄ r₄ _ _ _ _ m₃ m₄).mpr e; cases this

/-! ## transaction locations -/

/-- **C16_txloc**: under the external law that the locations computed by `wire` from the fresh
serialisation delimit each transaction's serialisation inside it (`LocsDelimit W txSer`, explicit
hypothesis), whatever `TxLoc()` returns delimits them inside whatever `Bytes()` returns, anywhere in
any script. -/
theorem C16_txloc (W : Wire) (hser : W.ser ≠ []) (txSer : List Bytes) (hlaw : LocsDelimit W txSer)
    (s₀ : St) (h₀ : s₀ = initMsg ∨ s₀ = initBytes W.ser) (calls : List Call) (p q : Nat)
    (L : List (Nat × Nat)) (B : Bytes) (h : Nat)
    (hc₁ : calls[p]? = some .txLoc) (hr₁ : (run W s₀ calls).2[p]? = some (.locs L))
    (hc₂ : calls[q]? = some .bytes) (hr₂ : (run W s₀ calls).2[q]? = some (.bytes B h)) :
    Delimits L B txSer := by
  have hI := IsCtor.inv h₀
  have e₁ := (run_at hser hI calls hc₁ hr₁).1
  have e₂ := (run_at hser hI calls hc₂ hr₂).1
  simp only [render, Res.locs.injEq] at e₁
  simp only [render, Res.bytes.injEq] at e₂
  rw [e₁, e₂.1]
  exact hlaw

/-! ## constructors and re-parsing -/

/-- any two well-formed cache states of the same message are observationally equal: every script gives
the same results up to renaming of handles -/
theorem C16_observational_eq (W : Wire) (hser : W.ser ≠ []) (s s' : St) (h : Inv W s) (h' : Inv W s')
    (calls : List Call) : canon (run W s calls).2 = canon (run W s' calls).2 :=
  run_canon_eq hser h h' calls

/-- **C16_ctor_independent**: the constructor only decides which caches start filled; what any script
observes (values, indices, errors and the pattern of object identities) is the same. -/
theorem C16_ctor_independent (W : Wire) (hser : W.ser ≠ []) (calls : List Call) :
    canon (run W (initBytes W.ser) calls).2 = canon (run W initMsg calls).2 :=
  run_canon_eq hser (inv_initBytes W W.ser (Or.inl rfl)) (inv_initMsg W) calls

/-- **C16_reparse**: with the external round-trip law of `wire` (`deser (ser ++ r) = (msg, r)`,
explicit hypothesis): take what `Bytes()` returned at any point of any script on the original block,
append arbitrary trailing bytes, and construct a block from that with `NewBlockFromBytes`.  The new
block wraps the same message and is observationally equal to the original *in the state it is in now*
(after the script `pre`), hence also to a freshly constructed one. -/
theorem C16_reparse (W : Wire) (hser : W.ser ≠ []) (deser : Bytes → Option (Wire × Bytes))
    (hlaw : ∀ r, deser (W.ser ++ r) = some (W, r))
    (s₀ : St) (h₀ : s₀ = initMsg ∨ s₀ = initBytes W.ser) (pre : List Call) (p : Nat) (B : Bytes) (h : Nat)
    (hc : pre[p]? = some .bytes) (hr : (run W s₀ pre).2[p]? = some (.bytes B h)) (trailing : Bytes) :
    ∃ s₁, newBlockFromBytes deser (B ++ trailing) = some (W, s₁) ∧
      ∀ calls, canon (run W s₁ calls).2 = canon (run W (run W s₀ pre).1 calls).2 ∧
               canon (run W s₁ calls).2 = canon (run W s₀ calls).2 := by
  have hI := IsCtor.inv h₀
  have e := (run_at hser hI pre hc hr).1
  simp only [render, Res.bytes.injEq] at e
  refine ⟨initBytes W.ser, by rw [e.1]; exact newBlockFromBytes_ser hlaw trailing, fun calls => ⟨?_, ?_⟩⟩
  · exact run_canon_eq hser (inv_initBytes W W.ser (Or.inl rfl)) (run_inv pre hI).1 calls
  · exact run_canon_eq hser (inv_initBytes W W.ser (Or.inl rfl)) hI calls

/-! ## non-vacuity: a concrete block with three transactions -/

example : exW.ser ≠ [] := by decide

/-- the run from the message constructor, literally -/
example : (run exW initMsg exScript).2 =
    [.tx [0xA1] 1 0, .hash [0xA1] 1, .outOfRange,
     .txs [([0xA0], 0, 2), ([0xA1], 1, 0), ([0xA2], 2, 3)],
     .outOfRange, .hash [0xB0] 4, .bytes exW.ser 5, .locs [(4, 2), (6, 3), (9, 1)],
     .tx [0xA1] 1 0, .hash [0xB0] 4] := by rfl

/-- the run from the bytes constructor: handle 0 is the cached serialisation, everything else shifts -/
example : (run exW (initBytes exW.ser) exScript).2 =
    [.tx [0xA1] 1 1, .hash [0xA1] 2, .outOfRange,
     .txs [([0xA0], 0, 3), ([0xA1], 1, 1), ([0xA2], 2, 4)],
     .outOfRange, .hash [0xB0] 5, .bytes exW.ser 0, .locs [(4, 2), (6, 3), (9, 1)],
     .tx [0xA1] 1 1, .hash [0xB0] 5] := by rfl

/-- both have the same canonical form (instance of `C16_ctor_independent`) -/
example : canon (run exW (initBytes exW.ser) exScript).2 =
    [.tx [0xA1] 1 0, .hash [0xA1] 1, .outOfRange,
     .txs [([0xA0], 0, 2), ([0xA1], 1, 0), ([0xA2], 2, 3)],
     .outOfRange, .hash [0xB0] 4, .bytes exW.ser 5, .locs [(4, 2), (6, 3), (9, 1)],
     .tx [0xA1] 1 0, .hash [0xB0] 4] := by rfl
example : canon (run exW initMsg exScript).2 = canon (run exW (initBytes exW.ser) exScript).2 := by rfl

/-- the hypothesis `W.ser ≠ []` is necessary for "same object": with an empty serialisation `Bytes()`
never hits its cache (`len(b.serializedBlock) != 0`) and hands out a new object each time -/
example : (run { exW with ser := [] } initMsg [.bytes, .bytes]).2 = [.bytes [] 0, .bytes [] 1] := by rfl

/-- the observed (object, handle) pairs of that run: `Tx 1` twice and slot 1 of `Transactions` are the
same object -/
example : observed exW exScript (run exW initMsg exScript).2 =
    [(.tx 1, 0), (.txHash 1, 1), (.tx 0, 2), (.tx 1, 0), (.tx 2, 3), (.blockHash, 4), (.bytes, 5),
     (.tx 1, 0), (.blockHash, 4)] := by rfl

/-- the hypothesis of `C16_txloc` is satisfiable: the example locations delimit the three
transaction serialisations -/
example : LocsDelimit exW [[1, 2], [3, 4, 5], [6]] := by
  refine ⟨rfl, ?_⟩
  intro k loc t h1 h2
  match k with
  | 0 => simp [exW] at h1 h2; subst h1; subst h2; decide
  | 1 => simp [exW] at h1 h2; subst h1; subst h2; decide
  | 2 => simp [exW] at h1 h2; subst h1; subst h2; decide
  | k + 3 => simp [exW] at h1

/-- the hypothesis of `C16_reparse` is satisfiable: the toy deserialiser `exDeser`
recognises `exW.ser` as a prefix and returns the rest -/
example : ∀ r, exDeser (exW.ser ++ r) = some (exW, r) := by
  intro r
  simp [exDeser, exW]

example : (newBlockFromBytes exDeser (exW.ser ++ [0xDE, 0xAD])).map (·.2.serialized) =
    some (some (exW.ser, 0)) := by rfl

/-- a state violating the invariant is rejected: the pre-fix behaviour (whole input incl. trailing
bytes cached) is *not* well-formed, so the theorems do not silently cover it -/
example : ¬ Inv exW (initBytes (exW.ser ++ [0xDE, 0xAD])) := by
  intro h
  have := h.ser _ _ rfl (by decide)
  revert this
  decide

end Bch.Props.C16
