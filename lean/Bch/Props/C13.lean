namespace Bch.Props.C13
theorem placeholder : True := trivial
end Bch.Props.C13
