import Bch.Proofs.GcsSpec
/-
C13 — Golomb-coded set filters never miss a member and all query strategies agree.
Model: `Bch/Model/Gcs.lean`; SipHash-2-4 is the parameter `sip`. Lemmas: `Bch/Proofs/Gcs*.lean`.
-/
namespace Bch.Props.C13
open Bch Bch.Model.Gcs
open Bch.Proofs.Gcs (Sorted)

/-! ## hash-to-range -/

/-- The hand-written 64x64→high-64 multiplication is exact (all four partial products and the
carry path). The bounds on `hi`/`lo` are those of the only call site (`hashToRange`). -/
theorem fastReduction_spec (v hi lo : UInt64) (hhi : hi.toNat < 2^32) (hlo : lo.toNat < 2^32) :
    (fastReduction v hi lo).toNat = (v.toNat * (hi.toNat * 2^32 + lo.toNat)) / 2^64 :=
  Proofs.Gcs.fastReduction_spec v hi lo hhi hlo

-- non-vacuity: the carry path (`lo32(vhi*nLo) + lo32(nHi*vlo) + hi32(vlo*nLo) ≥ 2^32`) is exercised
example : (fastReduction 0xffffffffffffffff 0xffffffff 0xffffffff).toNat
    = (0xffffffffffffffff * 0xffffffffffffffff) / 2^64 := by decide

/-- `hashToRange` is `⌊sip(d) · modulusNP / 2^64⌋` for every modulus (no hypothesis). -/
theorem hashToRange_floor (sip : Bytes → UInt64) (modNP : UInt64) (d : Bytes) :
    (hashToRange sip modNP d).toNat = (sip d).toNat * modNP.toNat / 2^64 :=
  Proofs.Gcs.hashToRange_spec sip modNP d

/-- the hashed value lies in `[0, modulusNP)` -/
theorem hashToRange_lt (sip : Bytes → UInt64) (modNP : UInt64) (d : Bytes) (h : modNP ≠ 0) :
    (hashToRange sip modNP d).toNat < modNP.toNat :=
  Proofs.Gcs.hashToRange_lt sip modNP d h

example : (784931 : UInt64) ≠ 0 := by decide

/-- guard branch of `hashToRange_lt`: with modulus 0 (N = 0, M = 0 or `N*M` a multiple of 2^64)
every item hashes to 0 -/
theorem hashToRange_zero (sip : Bytes → UInt64) (d : Bytes) : hashToRange sip 0 d = 0 :=
  Proofs.Gcs.hashToRange_zero sip d

/-! ## bit stream -/

/-- packing to bytes and unpacking appends fewer than 8 zero bits, up to the byte boundary -/
theorem unpack_pack (bs : List Bool) :
    ∃ k, k < 8 ∧ (bs.length + k) % 8 = 0 ∧
      unpackBits (packBits bs) = bs ++ List.replicate k false :=
  Proofs.Gcs.unpack_pack bs

/-- `ReadBits(p)` returns the `p` low bits written by `WriteBits(x, p)` -/
theorem readBits_bitsOf (p x : Nat) (rest : List Bool) :
    readBits p (bitsOf p x ++ rest) 0 = some (UInt64.ofNat (x % 2^p), rest) := by
  have := Proofs.Gcs.readBits_bitsOf p x 0 rest
  simpa using this

/-- EOF branch of `readBits` -/
theorem readBits_eof (p : Nat) (bs : List Bool) (acc : UInt64) (h : bs.length < p) :
    readBits p bs acc = none := by
  induction p generalizing bs acc with
  | zero => omega
  | succ p ih =>
    cases bs with
    | nil => rfl
    | cons b bs => rw [readBits]; exact ih _ _ (by simpa using h)

/-- the unary reader returns the number of one-bits and consumes the terminating zero -/
theorem readUnary_ones (q : Nat) (rest : List Bool) :
    readUnary (List.replicate q true ++ false :: rest) 0 = some (UInt64.ofNat q, rest) := by
  have := Proofs.Gcs.readUnary_replicate q 0 rest
  simpa using this

/-- EOF branch of `readUnary`: a run of ones without terminator -/
theorem readUnary_eof (q : Nat) (acc : UInt64) : readUnary (List.replicate q true) acc = none := by
  induction q generalizing acc with
  | zero => rfl
  | succ q ih => rw [List.replicate_succ, readUnary]; exact ih _

/-- **golomb_roundtrip**: every 64-bit delta, for every `P ≤ 32`, is read back exactly and the
cursor is left directly after it. -/
theorem golomb_roundtrip (p : Nat) (hp : p ≤ 32) (δ : UInt64) (rest : List Bool) :
    readFull p (encodeDelta p δ ++ rest) = some (δ, rest) :=
  Proofs.Gcs.golomb_roundtrip p hp δ rest

example : readFull 3 (encodeDelta 3 29 ++ [true]) = some (29, [true]) := by decide

/-- decoding the whole stream of an encoded list (no padding) returns the list. (The deltas are
`UInt64` differences, so this does not even need sortedness.) -/
theorem golomb_roundtrip_list (p : Nat) (hp : p ≤ 32) (vs : List UInt64) (last : UInt64) :
    decodeAll p ((encodeSorted p last vs).length + 1) (encodeSorted p last vs) last = vs :=
  Proofs.Gcs.decodeAll_exact p hp vs last _ (Nat.lt_succ_self _)

/-- reading a value from `k` padding zeros gives EOF or a zero delta (leaving fewer zeros) -/
theorem padding_reads_zero (p k : Nat) :
    readFull p (List.replicate k false) = none ∨
      ∃ j, j < k ∧ readFull p (List.replicate k false) = some (0, List.replicate j false) :=
  Proofs.Gcs.readFull_padding p k

/-- decoding until EOF a padded stream returns the values followed only by repeats of the last -/
theorem decodeAll_padded (p : Nat) (hp : p ≤ 32) (vs : List UInt64) (last : UInt64) (k : Nat) :
    let bits := encodeSorted p last vs ++ List.replicate k false
    ∃ j, decodeAll p (bits.length + 1) bits last
      = vs ++ List.replicate j (vs.getLast?.getD last) :=
  Proofs.Gcs.decodeAll_spec p hp vs last k _ (Nat.lt_succ_self _)

/-! ## sorting -/

theorem sortU64_sorted_perm (l : List UInt64) :
    (sortU64 l).Pairwise (· ≤ ·) ∧ (sortU64 l).Perm l :=
  ⟨Proofs.Gcs.sortU64_sorted l, Proofs.Gcs.sortU64_perm l⟩

/-! ## what a built filter is and what `Match` computes on it -/

/-- `BuildGCSFilter` succeeds exactly for `N < 2^32`, `P ≤ 32` (so the hypotheses of the headline
theorems are exactly "no error"), with the stated errors otherwise. -/
theorem build_ok_or_error (sip : Bytes → UInt64) (P : Nat) (M : UInt64) (data : List Bytes) :
    ((∃ f, BuildGCSFilter sip P M data = .ok f) ↔ data.length < 2^32 ∧ P ≤ 32) ∧
    (BuildGCSFilter sip P M data = .error .nTooBig ↔ data.length ≥ 2^32) ∧
    (BuildGCSFilter sip P M data = .error .pTooBig ↔ data.length < 2^32 ∧ P > 32) := by
  refine ⟨⟨?_, ?_⟩, Proofs.Gcs.build_error_iff sip P M data⟩
  · rintro ⟨f, hf⟩
    have := (Proofs.Gcs.build_ok_iff ..).mp hf
    exact ⟨this.1, this.2.1⟩
  · rintro ⟨h1, h2⟩
    exact ⟨_, (Proofs.Gcs.build_ok_iff ..).mpr ⟨h1, h2, rfl⟩⟩

/-- On a built filter, `Match` answers exactly "does the query hash to the hash of a member". -/
theorem Match_built_iff (sip : Bytes → UInt64) (P : Nat) (M : UInt64) (data : List Bytes)
    (f : Filter) (hb : BuildGCSFilter sip P M data = .ok f) (x : Bytes) :
    Match sip f x = true ↔
      ∃ d ∈ data, hashToRange sip f.modulusNP d = hashToRange sip f.modulusNP x := by
  rw [Proofs.Gcs.Match_built hb, decide_eq_true_eq]
  obtain ⟨_, _, rfl⟩ := (Proofs.Gcs.build_ok_iff ..).mp hb
  exact Proofs.Gcs.mem_valuesOf ..

/-! ## headline: no false negatives -/

/-- **C13_member_matches**: for every hash function, every `P`, `M` and data list, if the build
succeeds (i.e. `N < 2^32`, `P ≤ 32`, see `build_ok_or_error`) every member is reported present by
the single-item query, and every query list containing a member by all three any-of queries. -/
theorem C13_member_matches (sip : Bytes → UInt64) (P : Nat) (M : UInt64) (data : List Bytes)
    (f : Filter) (hb : BuildGCSFilter sip P M data = .ok f) (d : Bytes) (hd : d ∈ data) :
    Match sip f d = true ∧
    ∀ q : List Bytes, d ∈ q →
      ZipMatchAny sip f q = true ∧ HashMatchAny sip f q = true ∧ MatchAny sip f q = true := by
  have hm := Proofs.Gcs.member_hash_mem hb hd
  refine ⟨by rw [Proofs.Gcs.Match_built hb]; exact decide_eq_true hm, fun q hq => ?_⟩
  have : q.any (fun x => decide (hashToRange sip f.modulusNP x ∈ Proofs.Gcs.valuesOf sip M data))
      = true := List.any_eq_true.mpr ⟨d, hq, decide_eq_true hm⟩
  exact ⟨by rw [Proofs.Gcs.ZipMatchAny_built hb, this],
         by rw [Proofs.Gcs.HashMatchAny_built hb, this],
         by rw [Proofs.Gcs.MatchAny_built hb, this]⟩

/-- **C13_empty**: a filter with `N = 0` matches no single item, and no filter matches the empty
query. (For an arbitrary — not built — `Filter` value with `n = 0` but non-empty bytes
`HashMatchAny` ignores `n`; for built filters see `C13_empty_built`.) -/
theorem C13_empty (sip : Bytes → UInt64) (f : Filter) :
    (f.n = 0 → ∀ d, Match sip f d = false) ∧
    (f.n = 0 → ∀ q, ZipMatchAny sip f q = false) ∧
    ZipMatchAny sip f [] = false ∧ HashMatchAny sip f [] = false ∧ MatchAny sip f [] = false := by
  refine ⟨fun h d => ?_, fun h q => ?_, rfl, rfl, ?_⟩
  · unfold Match; rw [h]; rfl
  · unfold ZipMatchAny; rw [h]; split <;> rfl
  · unfold MatchAny; split <;> rfl

/-- a filter built from the empty set matches nothing, through every query function -/
theorem C13_empty_built (sip : Bytes → UInt64) (P : Nat) (M : UInt64) (f : Filter)
    (hb : BuildGCSFilter sip P M [] = .ok f) (q : List Bytes) :
    f.n = 0 ∧ f.data = [] ∧ (∀ d, Match sip f d = false) ∧
    ZipMatchAny sip f q = false ∧ HashMatchAny sip f q = false ∧ MatchAny sip f q = false := by
  have hv : Proofs.Gcs.valuesOf sip M [] = [] := by
    simp [Proofs.Gcs.valuesOf, Proofs.Gcs.sortU64_nil]
  have hq : q.any (fun x => decide (hashToRange sip f.modulusNP x ∈ Proofs.Gcs.valuesOf sip M []))
      = false := by rw [hv]; simp
  refine ⟨?_, ?_, fun d => ?_, ?_, ?_, ?_⟩
  · obtain ⟨_, _, rfl⟩ := (Proofs.Gcs.build_ok_iff ..).mp hb; rfl
  · obtain ⟨_, _, rfl⟩ := (Proofs.Gcs.build_ok_iff ..).mp hb
    simp [hv, encodeSorted, packBits]
  · rw [Proofs.Gcs.Match_built hb, hv]; simp
  · rw [Proofs.Gcs.ZipMatchAny_built hb, hq]
  · rw [Proofs.Gcs.HashMatchAny_built hb, hq]
  · rw [Proofs.Gcs.MatchAny_built hb, hq]

/-! ## headline: the strategies agree -/

/-- **C13_strategies_agree**: on every built filter and for every query list, the merge strategy,
the decode-all strategy and the dispatching `MatchAny` all return exactly
"some queried item matches individually". -/
theorem C13_strategies_agree (sip : Bytes → UInt64) (P : Nat) (M : UInt64) (data : List Bytes)
    (f : Filter) (hb : BuildGCSFilter sip P M data = .ok f) (q : List Bytes) :
    ZipMatchAny sip f q = q.any (Match sip f ·) ∧
    HashMatchAny sip f q = q.any (Match sip f ·) ∧
    MatchAny sip f q = q.any (Match sip f ·) := by
  have e : q.any (Match sip f ·)
      = q.any (fun x => decide (hashToRange sip f.modulusNP x ∈ Proofs.Gcs.valuesOf sip M data)) :=
    List.any_congr rfl (fun x => Proofs.Gcs.Match_built hb x)
  rw [e]
  exact ⟨Proofs.Gcs.ZipMatchAny_built hb q, Proofs.Gcs.HashMatchAny_built hb q,
    Proofs.Gcs.MatchAny_built hb q⟩

/-! ## non-vacuity: a toy hash on three items -/

def toySip (d : Bytes) : UInt64 := UInt64.ofNat (Bytes.toNatBE d) * 0x9E3779B97F4A7C15

def toyData : List Bytes := [[1, 2, 3], [0xff], [7, 7]]

-- the hypothesis `BuildGCSFilter … = .ok f` of the headline theorems is satisfiable
example : ∃ f, BuildGCSFilter toySip 19 784931 toyData = .ok f :=
  (build_ok_or_error toySip 19 784931 toyData).1.mpr ⟨by decide, by decide⟩

-- … and so the conclusions hold of a concrete filter (obtained from the theorems, not evaluation)
example : ∃ f, BuildGCSFilter toySip 19 784931 toyData = .ok f ∧ f.n = 3 ∧
    Match toySip f [0xff] = true ∧ MatchAny toySip f [[9], [7, 7]] = true := by
  obtain ⟨f, hf⟩ := (build_ok_or_error toySip 19 784931 toyData).1.mpr ⟨by decide, by decide⟩
  have h1 := C13_member_matches toySip 19 784931 toyData f hf [0xff] (by decide)
  have h2 := C13_member_matches toySip 19 784931 toyData f hf [7, 7] (by decide)
  have hn := (Proofs.Gcs.built_fields hf).1
  exact ⟨f, hf, hn, h1.1, (h2.2 [[9], [7, 7]] (by decide)).2.2⟩

/-- a fully evaluated instance: 3 items, P = 3, M = 5 (hashes 11, 8, 12 in `[0,15)`) -/
theorem toy_build : BuildGCSFilter toySip 3 5 toyData = .ok ⟨3, 3, 15, [129, 136]⟩ := by
  rw [Proofs.Gcs.build_ok_iff]
  refine ⟨by decide, by decide, ?_⟩
  have hv : Proofs.Gcs.valuesOf toySip 5 toyData = [8, 11, 12] :=
    Proofs.Gcs.sorted_eq_of_perm (Proofs.Gcs.sortU64_sorted _) (by decide)
      ((Proofs.Gcs.sortU64_perm _).trans (by decide))
  have he : encodeSorted 3 0 [8, 11, 12]
      = [true, false, false, false, false, false, false, true, true, false, false, false, true] := by
    decide
  rw [hv, he]
  simp [packBits, byteOfBits, toyData]

-- members match, a non-member ([5] hashes to 13) does not; the strategies agree on a mixed query
example : Match toySip ⟨3, 3, 15, [129, 136]⟩ [0xff] = true := by decide
example : Match toySip ⟨3, 3, 15, [129, 136]⟩ [5] = false := by decide
example : ZipMatchAny toySip ⟨3, 3, 15, [129, 136]⟩ [[5], [7, 7]] = true
    ∧ HashMatchAny toySip ⟨3, 3, 15, [129, 136]⟩ [[5], [7, 7]] = true
    ∧ MatchAny toySip ⟨3, 3, 15, [129, 136]⟩ [[5]] = false :=
  ⟨((C13_member_matches _ _ _ _ _ toy_build [7, 7] (by decide)).2 _ (by decide)).1,
   ((C13_member_matches _ _ _ _ _ toy_build [7, 7] (by decide)).2 _ (by decide)).2.1,
   by rw [(C13_strategies_agree _ _ _ _ _ toy_build [[5]]).2.2]; decide⟩

end Bch.Props.C13
