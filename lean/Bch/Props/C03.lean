import Bch.Proofs.C03Enum
import Bch.Proofs.C03Lift
/-!
# C03 — the address checksums detect every corruption they are specified to detect

Architecture (details in `Bch/Proofs/Polymod.lean`, `C03Lift.lean`, `C03Enum.lean`):

1. both checksum step functions are GF(2)-linear in (state, symbol) — `polyModStep_linear`,
   `bech32_polymodStep_linear`, `polyMod_affine`, `bech32_affine` (kernel-only);
2. `checkIndep cols n k` is an XOR-basis depth-first search over the position sets of size ≤ `k` *that
   contain the last position*; because stepping with a zero symbol is injective on the state, this is
   enough for all position sets (`checkIndep_sound`, kernel-only, generic in the step function);
3. the two enumeration facts `cashaddr_indep_112_5`, `bech32_indep_89_4` are evaluated by
   `native_decide` (the only use in the project, confined to `Bch/Proofs/C03Enum.lean`);
4. the lift to `DecodeCashAddress` / `bech32.Decode` on byte strings (kernel-only given 3.).

`hamming a b` is the number of positions at which two byte strings of equal length differ.
Theorems whose `#print axioms` shows a `…native_decide.ax_*` axiom are exactly those below the line
"depend on the enumeration facts".
-/
namespace Bch.Props.C03
open Bch Bch.Model Bch.Proofs.Polymod Bch.Proofs.C03Lift

/-! ## linearity (kernel-only) -/

/-- the CashAddr step is GF(2)-linear in (state, symbol), for all states and symbols -/
theorem polyModStep_linear (c c' : Nat) (d d' : UInt8) :
    CashAddr.polyModStep (c ^^^ c') (d ^^^ d') = CashAddr.polyModStep c d ^^^ CashAddr.polyModStep c' d' := by
  simp only [polyModStep_eq, UInt8.toNat_xor, stepC_xor]

/-- the bech32 step is GF(2)-linear in (state, symbol) -/
theorem bech32_polymodStep_linear (c c' d d' : Nat) :
    Bech32.polymodStep (c ^^^ c') (d ^^^ d') = Bech32.polymodStep c d ^^^ Bech32.polymodStep c' d' := by
  simp only [polymodStep_eq, stepB_xor]

/-- `polyMod` is affine: the remainder of `w ⊕ e` is the remainder of `w` XOR the syndrome of `e`
    (which does not depend on `w`) -/
theorem polyMod_affine (w e : Bytes) (hl : w.length = e.length) :
    CashAddr.polyMod (List.zipWith (· ^^^ ·) w e) = CashAddr.polyMod w ^^^ e.foldl CashAddr.polyModStep 0 := by
  unfold CashAddr.polyMod
  simp only [foldl_polyModStep]
  have hz : (List.zipWith (· ^^^ ·) w e).map (·.toNat) =
      List.zipWith (· ^^^ ·) (w.map (·.toNat)) (e.map (·.toNat)) := by
    rw [List.zipWith_map, List.map_zipWith]; simp only [UInt8.toNat_xor]
  have := linStepC.fold_xor (w.map (·.toNat)) (e.map (·.toNat)) 1 0 (by simpa using hl)
  rw [show (1:Nat) ^^^ 0 = 1 from rfl] at this
  rw [hz, this]
  ac_rfl

/-- `bech32Polymod` is affine in the same sense -/
theorem bech32_affine (w e : List Nat) (hl : w.length = e.length) :
    Bech32.polymod (List.zipWith (· ^^^ ·) w e) = Bech32.polymod w ^^^ e.foldl Bech32.polymodStep 0 := by
  unfold Bech32.polymod
  simp only [foldl_polymodStep]
  exact linStepB.fold_xor w e 1 0 hl

/-! ## soundness of the search (kernel-only) -/

/-- **`checkIndep_sound`**: for any step function that is linear, keeps `W`-bit states and is injective
    on zero symbols: if the search over the column table succeeds, every non-zero error word of length
    ≤ `n` over symbols `< 32` with at most `k` non-zero symbols has a non-zero syndrome. -/
theorem checkIndep_sound {W : Nat} {step : Nat → Nat → Nat} (h : LinStep W step) (n k : Nat)
    (hc : checkIndep (cols step n) n k = true) (e : List Nat) (hlen : e.length ≤ n)
    (hsym : ∀ d ∈ e, d < 32) (hw : (e.filter (· ≠ 0)).length ≤ k) (hne : ∃ d ∈ e, d ≠ 0) :
    e.foldl step 0 ≠ 0 :=
  h.mindist n k hc e hlen hsym (by unfold weight; rw [List.countP_eq_length_filter]; exact hw) hne

/-- the hypotheses of `checkIndep_sound` hold for the (table forms of the) two step functions -/
theorem linStep_cashaddr : LinStep 40 stepC ∧ ∀ c d, CashAddr.polyModStep c d = stepC c d.toNat :=
  ⟨linStepC, polyModStep_eq⟩
theorem linStep_bech32 : LinStep 30 stepB ∧ ∀ c d, Bech32.polymodStep c d = stepB c d :=
  ⟨linStepB, polymodStep_eq⟩

/-! ## depend on the enumeration facts (`native_decide` axioms appear from here on) -/

theorem cashaddr_indep_112_5 : checkIndep (cols stepC 112) 112 5 = true :=
  Bch.Proofs.C03Enum.cashaddr_indep_112_5
theorem bech32_indep_89_4 : checkIndep (cols stepB 89) 89 4 = true :=
  Bch.Proofs.C03Enum.bech32_indep_89_4

/-- every non-zero error pattern of at most 5 symbols within 112 symbols has a non-zero CashAddr syndrome -/
theorem cashaddr_syndrome_ne_zero (e : Bytes) (hlen : e.length ≤ 112) (hsym : ∀ d ∈ e, d.toNat < 32)
    (hw : (e.filter (· ≠ 0)).length ≤ 5) (hne : ∃ d ∈ e, d ≠ 0) :
    e.foldl CashAddr.polyModStep 0 ≠ 0 := by
  rw [foldl_polyModStep]
  apply checkIndep_sound linStepC 112 5 cashaddr_indep_112_5
  · simpa using hlen
  · intro d hd; obtain ⟨c, hc, rfl⟩ := List.mem_map.mp hd; exact hsym c hc
  · rw [List.filter_map, List.length_map]
    refine Nat.le_trans (Nat.le_of_eq ?_) hw
    congr 1; apply List.filter_congr; intro c _
    simp only [Function.comp, ne_eq, decide_not, Bool.not_eq_eq_eq_not, Bool.not_not, decide_eq_decide]
    exact ⟨fun h => UInt8.toNat_inj.mp (by simpa using h), fun h => by simp [h]⟩
  · obtain ⟨d, hd, hd0⟩ := hne
    exact ⟨d.toNat, List.mem_map.mpr ⟨d, hd, rfl⟩, fun h => hd0 (UInt8.toNat_inj.mp (by simpa using h))⟩

/-- every non-zero error pattern of at most 4 symbols within 89 symbols has a non-zero bech32 syndrome -/
theorem bech32_syndrome_ne_zero (e : List Nat) (hlen : e.length ≤ 89) (hsym : ∀ d ∈ e, d < 32)
    (hw : (e.filter (· ≠ 0)).length ≤ 4) (hne : ∃ d ∈ e, d ≠ 0) :
    e.foldl Bech32.polymodStep 0 ≠ 0 := by
  rw [foldl_polymodStep]
  exact checkIndep_sound linStepB 89 4 bech32_indep_89_4 e hlen hsym hw hne

/-- **C03, CashAddr (headline).** Let `pre ++ ":" ++ body` be accepted by `DecodeCashAddress` (`pre` is
    the part before the first `:`), with at most 112 characters after the separator. Replace between 1 and
    5 characters of `body` by ANY other bytes (`body'`): the decoder returns an error. -/
theorem C03_cashaddr (pre body body' : Bytes) (r : Bytes × Bytes) (hsep : 58 ∉ pre)
    (hok : CashAddr.DecodeCashAddress (pre ++ 58 :: body) = .ok r)
    (hlen : body.length ≤ 112) (hl : body'.length = body.length)
    (h1 : 1 ≤ hamming body body') (h5 : hamming body body' ≤ 5) :
    ∃ e, CashAddr.DecodeCashAddress (pre ++ 58 :: body') = .error e := by
  apply not_ok_error
  intro r' h'
  have hne : body ≠ body' := by intro he; rw [he, hamming_self] at h1; omega
  have := cashaddr_far cashaddr_indep_112_5 pre body body' hsep hl hlen r r' hok h' hne
  omega

/-- when moreover every byte of the changed part is a charset character and the string does not mix
    cases, the error is exactly the checksum error (all other replacement bytes — a letter of the other
    case, `:`, characters outside the charset — are rejected by `C03_cashaddr` with some error) -/
theorem C03_cashaddr_charset (pre body body' : Bytes) (r : Bytes × Bytes) (hsep : 58 ∉ pre)
    (hok : CashAddr.DecodeCashAddress (pre ++ 58 :: body) = .ok r)
    (hlen : body.length ≤ 112) (hl : body'.length = body.length)
    (h1 : 1 ≤ hamming body body') (h5 : hamming body body' ≤ 5)
    (hcs : ∀ c ∈ body', (CashAddr.charsetRev c).isSome)
    (hcase : ¬ ((∃ c ∈ pre ++ body', 65 ≤ c ∧ c ≤ 90) ∧ (∃ c ∈ pre ++ body', 97 ≤ c ∧ c ≤ 122))) :
    CashAddr.DecodeCashAddress (pre ++ 58 :: body') = .error .checksumMismatch := by
  apply cashaddr_mismatch pre body body' hsep r hok hl hcs hcase
  intro r' hr'
  obtain ⟨e, he⟩ := C03_cashaddr pre body body' r hsep hok hlen hl h1 h5
  rw [he] at hr'; cases hr'

/-- two different accepted CashAddr strings with the same prefix and the same length (≤ 112 characters
    after the separator) differ in at least six positions -/
theorem C03_cashaddr_distance (pre body body' : Bytes) (r r' : Bytes × Bytes) (hsep : 58 ∉ pre)
    (hok : CashAddr.DecodeCashAddress (pre ++ 58 :: body) = .ok r)
    (hok' : CashAddr.DecodeCashAddress (pre ++ 58 :: body') = .ok r')
    (hlen : body.length ≤ 112) (hl : body'.length = body.length) (hne : body ≠ body') :
    6 ≤ hamming body body' :=
  cashaddr_far cashaddr_indep_112_5 pre body body' hsep hl hlen r r' hok hok' hne

/-- **C03, bech32 (headline).** Let `hrp ++ "1" ++ dat` be accepted by `Decode` (no `'1'` in `dat`, so
    `dat` is the data part; acceptance implies total length ≤ 90), where the hrp contains a letter.
    Replace between 1 and 4 characters of `dat` by other bytes different from `'1'`: `Decode` returns an
    error. (A substituted `'1'` would move the separator; see DESIGN.md. For an hrp without letters see
    `C03_bech32_anycase` and the example after it.) -/
theorem C03_bech32 (hrp dat dat' : Bytes) (r : Bytes × Bytes) (h1 : 49 ∉ dat) (h1' : 49 ∉ dat')
    (hletter : ∃ c ∈ hrp, (97 ≤ c ∧ c ≤ 122) ∨ (65 ≤ c ∧ c ≤ 90))
    (hok : Bech32.Decode (hrp ++ 49 :: dat) = .ok r) (hl : dat'.length = dat.length)
    (hd1 : 1 ≤ hamming dat dat') (hd4 : hamming dat dat' ≤ 4) :
    ∃ e, Bech32.Decode (hrp ++ 49 :: dat') = .error e := by
  apply not_ok_error
  intro r' h'
  have hne : dat ≠ dat' := by intro he; rw [he, hamming_self] at hd1; omega
  have hc := bech32_case hrp dat dat' hletter (bech_ok hrp dat h1 r hok).2.1 (bech_ok hrp dat' h1' r' h').2.1 hne
  have := bech32_far bech32_indep_89_4 hrp dat dat' h1 h1' hl r r' hok h' hc
  omega

/-- the same for an arbitrary hrp: at most 4 substitutions in the data part give an error unless the new
    string is a case variant of the old one (bech32 accepts the all-upper-case form of a valid string) -/
theorem C03_bech32_anycase (hrp dat dat' : Bytes) (r : Bytes × Bytes) (h1 : 49 ∉ dat) (h1' : 49 ∉ dat')
    (hok : Bech32.Decode (hrp ++ 49 :: dat) = .ok r) (hl : dat'.length = dat.length)
    (hcase : dat.map Bech32.toLower ≠ dat'.map Bech32.toLower) (hd4 : hamming dat dat' ≤ 4) :
    ∃ e, Bech32.Decode (hrp ++ 49 :: dat') = .error e := by
  apply not_ok_error
  intro r' h'
  have := bech32_far bech32_indep_89_4 hrp dat dat' h1 h1' hl r r' hok h' hcase
  omega

/-- two accepted bech32 strings with the same hrp and length that are not case variants of each other
    differ in at least five positions of the data part -/
theorem C03_bech32_distance (hrp dat dat' : Bytes) (r r' : Bytes × Bytes) (h1 : 49 ∉ dat) (h1' : 49 ∉ dat')
    (hok : Bech32.Decode (hrp ++ 49 :: dat) = .ok r) (hok' : Bech32.Decode (hrp ++ 49 :: dat') = .ok r')
    (hl : dat'.length = dat.length) (hcase : dat.map Bech32.toLower ≠ dat'.map Bech32.toLower) :
    5 ≤ hamming dat dat' :=
  bech32_far bech32_indep_89_4 hrp dat dat' h1 h1' hl r r' hok hok' hcase

/-! ## non-vacuity -/

section examples
private def preX : Bytes := Bytes.ofString "bitcoincash"
/-- a 256-bit test vector of the CashAddr specification -/
private def bodyX : Bytes := Bytes.ofString "qvch8mmxy0rtfrlarg7ucrxxfzds5pamg73h7370aa87d80gyhqxq5nlegake"
/-- one character replaced -/
private def bodyX1 : Bytes := Bytes.ofString "qvch8mmxy0rtfrlarg7ucrxxfzds5pamg73h7370aa87d80gyhqxq5nlegakq"
/-- six characters replaced: another valid string -/
private def bodyX6 : Bytes := Bytes.ofString "qvch8mmxy0rfnrlarg7ucrxxfzds5pamg73h7370aa87d80gyh6xq5nvegahn"

/-- the hypotheses of `C03_cashaddr` are satisfiable … -/
example : 58 ∉ preX ∧ (∃ r, CashAddr.DecodeCashAddress (preX ++ 58 :: bodyX) = .ok r) ∧
    bodyX.length ≤ 112 ∧ bodyX1.length = bodyX.length ∧ hamming bodyX bodyX1 = 1 :=
  ⟨by decide +kernel, (isOk_iff _).mp (by decide +kernel), by decide +kernel, by decide +kernel,
    by decide +kernel⟩
/-- … and the corrupted string is indeed rejected (here with a checksum mismatch) -/
example : CashAddr.DecodeCashAddress (preX ++ 58 :: bodyX1) = .error .checksumMismatch :=
  (errOf_eq _ _).mp (by decide +kernel)
/-- the bound 6 of `C03_cashaddr_distance` is attained: two accepted strings at distance exactly 6 -/
example : (∃ r, CashAddr.DecodeCashAddress (preX ++ 58 :: bodyX) = .ok r) ∧
    (∃ r, CashAddr.DecodeCashAddress (preX ++ 58 :: bodyX6) = .ok r) ∧
    bodyX6.length = bodyX.length ∧ bodyX ≠ bodyX6 ∧ hamming bodyX bodyX6 = 6 :=
  ⟨(isOk_iff _).mp (by decide +kernel), (isOk_iff _).mp (by decide +kernel), by decide +kernel,
    by decide +kernel, by decide +kernel⟩

private def hrpY : Bytes := Bytes.ofString "abcdef"
/-- a valid test vector of BIP173 -/
private def datY : Bytes := Bytes.ofString "qpzry9x8gf2tvdw0s3jn54khce6mua7lmqqqxw"
private def datY1 : Bytes := Bytes.ofString "qpzry9x8gf2tvdw0s3jn54khce6mua7lmqqqxq"
/-- five characters replaced: another valid string -/
private def datY5 : Bytes := Bytes.ofString "qpzry9x8gf2tvdw7s3jn54khce6mu22lmqqq8q"

/-- the hypotheses of `C03_bech32` are satisfiable … -/
example : 49 ∉ datY ∧ 49 ∉ datY1 ∧ (∃ c ∈ hrpY, (97 ≤ c ∧ c ≤ 122) ∨ (65 ≤ c ∧ c ≤ 90)) ∧
    (∃ r, Bech32.Decode (hrpY ++ 49 :: datY) = .ok r) ∧ datY1.length = datY.length ∧
    hamming datY datY1 = 1 :=
  ⟨by decide +kernel, by decide +kernel, ⟨97, by decide +kernel, by decide⟩,
    (isOk_iff _).mp (by decide +kernel), by decide +kernel, by decide +kernel⟩
example : Bech32.Decode (hrpY ++ 49 :: datY1) = .error .checksum := (errOf_eq _ _).mp (by decide +kernel)
/-- the bound 5 of `C03_bech32_distance` is attained -/
example : (∃ r, Bech32.Decode (hrpY ++ 49 :: datY) = .ok r) ∧ (∃ r, Bech32.Decode (hrpY ++ 49 :: datY5) = .ok r) ∧
    datY5.length = datY.length ∧ datY.map Bech32.toLower ≠ datY5.map Bech32.toLower ∧
    hamming datY datY5 = 5 :=
  ⟨(isOk_iff _).mp (by decide +kernel), (isOk_iff _).mp (by decide +kernel), by decide +kernel,
    by decide +kernel, by decide +kernel⟩

/-- why `C03_bech32` needs a letter in the hrp (or `C03_bech32_anycase` its case hypothesis): with the
    letterless hrp `"2"`, changing the two letters of the data part of the valid string `215830dl5257`
    to upper case gives the valid string `215830DL5257` — two substitutions, both accepted -/
example : (∃ r, Bech32.Decode (Bytes.ofString "215830dl5257") = .ok r) ∧
    (∃ r, Bech32.Decode (Bytes.ofString "215830DL5257") = .ok r) ∧
    hamming (Bytes.ofString "5830dl5257") (Bytes.ofString "5830DL5257") = 2 :=
  ⟨(isOk_iff _).mp (by decide +kernel), (isOk_iff _).mp (by decide +kernel), by decide +kernel⟩
/-- why `C03_bech32` excludes the replacement character `'1'` (hypothesis `h1'`): a substituted `'1'` becomes the
    LAST separator, so the string is read with a longer human-readable part and a shorter data part, and the code
    distance of the checksum says nothing about that reading. Witness (found by a syndrome search, confirmed on the
    real decoder, recorded as a known finding): three substitutions in the data part of the valid
    `bc1nrz3eet94sq5nw79mr3d` give `bc1nrz3e1sf4sq5nw79mr3d`, which is valid with hrp `bc1nrz3e`. -/
example : (∃ r, Bech32.Decode (Bytes.ofString "bc1nrz3eet94sq5nw79mr3d") = .ok r) ∧
    (∃ r, Bech32.Decode (Bytes.ofString "bc1nrz3e1sf4sq5nw79mr3d") = .ok r) ∧
    hamming (Bytes.ofString "nrz3eet94sq5nw79mr3d") (Bytes.ofString "nrz3e1sf4sq5nw79mr3d") = 3 :=
  ⟨(isOk_iff _).mp (by decide +kernel), (isOk_iff _).mp (by decide +kernel), by decide +kernel⟩
end examples

end Bch.Props.C03
