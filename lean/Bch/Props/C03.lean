namespace Bch.Props.C03
theorem placeholder : True := trivial
end Bch.Props.C03
