import Bch.Proofs.MerkleSelect
/-
C11, second part — how the subset is obtained, the second builder, canonicity.

`Bch/Props/C11.lean` proves the round trip for an abstract subset predicate `m : Nat → Bool`. Here:

* the subset **given as a set of hashes** (`merkleblock.NewMerkleBlockWithTxnSet`: `TxInSet`, `selectBySet`,
  `buildWithTxnSet`) — `C11_set_roundtrip` (general: duplicate transactions allowed) and
  `C11_set_roundtrip_distinct` (pairwise distinct leaf hashes);
* the subset **induced by a bloom filter** (`merkleblock.NewMerkleBlockWithFilter`, `bloom.NewMerkleBlock`: the
  indices reported by the block scan `bloom.GetMatchedIndices` of property C10) — `C11_filter_roundtrip`,
  `C11_filter_roundtrip_distinct`, `C11_filter_relevant`;
* **the two builders agree** — `C11_builders_agree`, `C11_builders_agree_filter`.  The traversal code of
  bloom/merkleblock.go and merkleblock/encode.go is textually identical (receiver renamed, `calcBlock` inlined), so
  the theorem compares two independent *renderings* of that code: the functional `Merkle.buildMsg` used everywhere
  else and the statement-by-statement `buildMsgBloom` (struct threaded through the recursion, byte-valued flag bits
  combined with `|=`, shifts, the in-place loop `Flags[i/8] |= bits[i] << (i%8)`);
* **canonicity** — `C11_canonical`, `C11_canonical_eq`, `C11_padding_free`, `C11_canonical_needs_minimality`.
  The literal claim "the built message is the only accepted message with that match set" is FALSE for this
  extractor, in two independent ways, both stated below as theorems:
    1. the unused high bits of the last flag byte are not inspected (`C11_padding_free`);
    2. the extractor accepts non-minimal trees: an inner node without any matched leaf below it may be expanded
       (flag 1) instead of being given by its hash (`C11_canonical_needs_minimality`).
  What IS true (`C11_canonical`, for an injective node combiner): every accepted message for the block's true root
  reveals genuine leaves at their genuine positions, consists of true subtree hashes, is at least as long as the
  built one (flag bits, hashes, flag bytes), and if it uses no more flag bits than the built one it IS the built one
  except possibly for those padding bits; with zero padding it is equal to it (`C11_canonical_eq`).

All definitions referred to are the models' own (`Bch/Model/Merkle.lean`, `Bch/Model/MerkleSelect.lean`,
`Bch/Model/BloomTx.lean`).
-/
namespace Bch.Props.C11
open Bch Bch.Model.Merkle Bch.Model.MerkleSelect Bch.Model.BloomTx
open Bch.Proofs.Merkle Bch.Proofs.MerkleSelect Bch.Proofs.BloomTx

variable {H : Type} [DecidableEq H]

/-! ### the subset given as a set of hashes -/

/-- `TxInSet` is list membership of the hash value. -/
theorem C11_txInSet_iff (tx : H) (set : List H) : TxInSet tx set = true ↔ tx ∈ set :=
  TxInSet_iff tx set

/-- `NewMerkleBlockWithTxnSet` marks position `i` iff transaction `i` exists and its hash is in the set. In
particular every copy of a duplicated transaction hash is marked (the comparison is on hash values). -/
theorem C11_selectBySet_iff (leaves set : List H) (i : Nat) :
    selectBySet leaves set i = true ↔ ∃ h, leaves[i]? = some h ∧ h ∈ set :=
  selectBySet_iff leaves set i

/-- **Round trip for a set of hashes — general form (duplicate transactions allowed).**
For every non-empty block of at most `maxTxnCount` transactions and every list `set` of hashes (hashes not in the
block, repetitions, any order), under `NoEqualSiblings` for the induced subset (necessary and sufficient for the
honest message to be accepted, `C11_accepted_iff`): extracting the message built by `NewMerkleBlockWithTxnSet`
returns the block's merkle root, exactly the leaves whose hash is in `set` — in block order and with multiplicity,
so a duplicate of a chosen transaction is chosen too — and their positions; the builder's index list is that same
position list, which is strictly increasing and consists exactly of the positions holding a hash of `set`. -/
theorem C11_set_roundtrip (comb : H → H → H) (zero dflt : H) (leaves set : List H)
    (h1 : 1 ≤ leaves.length) (h2 : leaves.length ≤ maxTxnCount)
    (hne : NoEqualSiblings comb (fun i => leaves.getD i dflt) (selectBySet leaves set) leaves.length) :
    let idx := (List.range leaves.length).filter (selectBySet leaves set)
    extractMsg comb zero (buildWithTxnSet comb leaves set dflt).1 =
      ⟨some (calcHash comb (fun i => leaves.getD i dflt) leaves.length (height leaves.length) 0),
       leaves.filter (fun h => decide (h ∈ set)), idx, false⟩ ∧
    (buildWithTxnSet comb leaves set dflt).2 = idx ∧
    (∀ i, i ∈ idx ↔ ∃ h, leaves[i]? = some h ∧ h ∈ set) ∧
    idx.Pairwise (· < ·) ∧
    idx.map (fun i => leaves.getD i dflt) = leaves.filter (fun h => decide (h ∈ set)) := by
  intro idx
  have hmatch : idx.map (fun i => leaves.getD i dflt) = leaves.filter (fun h => decide (h ∈ set)) := by
    rw [selectBySet_matches]
    congr 1
    funext h
    rw [Bool.eq_iff_iff, TxInSet_iff]; simp
  obtain ⟨r1, r2⟩ := roundtrip_msg comb zero dflt leaves (selectBySet leaves set) h1 h2 hne
  refine ⟨?_, r2, ?_, pairwise_filter_range _ _, hmatch⟩
  · unfold buildWithTxnSet
    rw [r1, hmatch]
  · intro i
    rw [mem_filter_range, selectBySet_iff]
    constructor
    · exact fun h => h.2
    · rintro ⟨h, hh, hs⟩
      exact ⟨(List.getElem?_eq_some_iff.1 hh).1, h, hh, hs⟩

/-- **Round trip for a set of hashes — pairwise distinct leaf hashes** (the situation of a valid block) and a
left-injective node combiner (the idealisation of double-SHA256 used by `distinct_leaves_ok`): no further
hypothesis. In addition the returned hashes are pairwise distinct and are exactly the hashes of `set` that occur
in the block. -/
theorem C11_set_roundtrip_distinct (comb : H → H → H) (zero dflt : H) (leaves set : List H)
    (h1 : 1 ≤ leaves.length) (h2 : leaves.length ≤ maxTxnCount)
    (hcomb : ∀ a b c d, comb a b = comb c d → a = c) (hnd : leaves.Nodup) :
    let idx := (List.range leaves.length).filter (selectBySet leaves set)
    extractMsg comb zero (buildWithTxnSet comb leaves set dflt).1 =
      ⟨some (calcHash comb (fun i => leaves.getD i dflt) leaves.length (height leaves.length) 0),
       leaves.filter (fun h => decide (h ∈ set)), idx, false⟩ ∧
    (buildWithTxnSet comb leaves set dflt).2 = idx ∧
    (∀ i, i ∈ idx ↔ ∃ h, leaves[i]? = some h ∧ h ∈ set) ∧
    idx.Pairwise (· < ·) ∧
    idx.map (fun i => leaves.getD i dflt) = leaves.filter (fun h => decide (h ∈ set)) ∧
    (leaves.filter (fun h => decide (h ∈ set))).Nodup ∧
    (∀ h, h ∈ leaves.filter (fun h => decide (h ∈ set)) ↔ h ∈ leaves ∧ h ∈ set) := by
  intro idx
  obtain ⟨a, b, c, d, e⟩ := C11_set_roundtrip comb zero dflt leaves set h1 h2
    (distinct_ok comb leaves dflt hcomb hnd _)
  exact ⟨a, b, c, d, e, hnd.sublist List.filter_sublist, fun h => by simp [List.mem_filter]⟩

/-! ### the subset induced by a bloom filter -/

section Filter
variable {F : Type} {O : FilterOps F} {G : F → Prop}

/-- the leaves of the filter builders are the block's transaction hashes; there are `block.size` of them -/
theorem C11_blockHashes (block : Array Tx) :
    (blockHashes block).length = block.size ∧
    ∀ (i : Nat) (tx : Tx), block[i]? = some tx → (blockHashes block)[i]? = some tx.id := by
  refine ⟨by simp [blockHashes], ?_⟩
  intro i tx h
  simp [blockHashes, h]

/-- **Round trip for a bloom filter.** For every filter model `O`, change detector `same`, fuel, block of
`1 ≤ block.size ≤ maxTxnCount` transactions and loaded filter `f`, under `NoEqualSiblings` for the subset the scan
reports: extracting the message built by `NewMerkleBlockWithFilter` returns the merkle root of the block's
transaction hashes, the hashes of exactly the transactions reported by `GetMatchedIndices` and their positions in
block order; the builder's index list is that position list (strictly increasing, `i` is in it iff
`i < block.size` and the scan reported `i`); and the filter handed back is the scan's final filter. -/
theorem C11_filter_roundtrip (O : FilterOps F) (same : F → F → Bool) (fuel : Nat)
    (comb : Bytes → Bytes → Bytes) (zero dflt : Bytes) (block : Array Tx) (f : F)
    (h1 : 1 ≤ block.size) (h2 : block.size ≤ maxTxnCount)
    (hne : NoEqualSiblings comb (fun i => (blockHashes block).getD i dflt)
      (selectByScan (GetMatchedIndices O same fuel block f)) block.size) :
    let s := GetMatchedIndices O same fuel block f
    let idx := (List.range block.size).filter (selectByScan s)
    let r := buildWithFilter O same fuel comb block f dflt
    extractMsg comb zero r.1 =
      ⟨some (calcHash comb (fun i => (blockHashes block).getD i dflt) block.size (height block.size) 0),
       idx.map (fun i => (blockHashes block).getD i dflt), idx, false⟩ ∧
    r.2.1 = idx ∧ r.2.2 = s.filter ∧
    (∀ i, i ∈ idx ↔ i < block.size ∧ i ∈ s.matched) ∧
    idx.Pairwise (· < ·) := by
  intro s idx r
  have hlen : (blockHashes block).length = block.size := (C11_blockHashes block).1
  have := roundtrip_msg comb zero dflt (blockHashes block) (selectByScan s)
    (by rw [hlen]; exact h1) (by rw [hlen]; exact h2) (by rw [hlen]; exact hne)
  rw [hlen] at this
  refine ⟨this.1, this.2, rfl, ?_, pairwise_filter_range _ _⟩
  intro i
  rw [mem_filter_range]
  simp [selectByScan, s]

/-- the same with pairwise distinct transaction hashes and a left-injective combiner: no further hypothesis -/
theorem C11_filter_roundtrip_distinct (O : FilterOps F) (same : F → F → Bool) (fuel : Nat)
    (comb : Bytes → Bytes → Bytes) (zero dflt : Bytes) (block : Array Tx) (f : F)
    (h1 : 1 ≤ block.size) (h2 : block.size ≤ maxTxnCount)
    (hcomb : ∀ a b c d, comb a b = comb c d → a = c) (hnd : (blockHashes block).Nodup) :
    let s := GetMatchedIndices O same fuel block f
    let idx := (List.range block.size).filter (selectByScan s)
    let r := buildWithFilter O same fuel comb block f dflt
    extractMsg comb zero r.1 =
      ⟨some (calcHash comb (fun i => (blockHashes block).getD i dflt) block.size (height block.size) 0),
       idx.map (fun i => (blockHashes block).getD i dflt), idx, false⟩ ∧
    r.2.1 = idx ∧ r.2.2 = s.filter ∧
    (∀ i, i ∈ idx ↔ i < block.size ∧ i ∈ s.matched) ∧
    idx.Pairwise (· < ·) := by
  have hlen : (blockHashes block).length = block.size := (C11_blockHashes block).1
  refine C11_filter_roundtrip O same fuel comb zero dflt block f h1 h2 ?_
  have := distinct_ok comb (blockHashes block) dflt hcomb hnd
    (selectByScan (GetMatchedIndices O same fuel block f))
  rwa [hlen] at this

/-- **The revealed set is the set of relevant transactions** (composition with C10, for a lawful filter):
the builder's index list is exactly the scan's report (as a set); every listed transaction is BIP37-relevant to the
filter handed back (`C10_block_sound`); and, with positive fuel, every transaction relevant to the filter as loaded
is listed (`C10_block_complete_a`). -/
theorem C11_filter_relevant (L : LawfulOn O G) (same : F → F → Bool) (fuel : Nat)
    (comb : Bytes → Bytes → Bytes) (dflt : Bytes) (block : Array Tx) (f : F) :
    let r := buildWithFilter O same fuel comb block f dflt
    (∀ i, i ∈ r.2.1 ↔ i ∈ (GetMatchedIndices O same fuel block f).matched) ∧
    (∀ i, i ∈ r.2.1 → i < block.size ∧ ∃ tx, block[i]? = some tx ∧ Relevant O r.2.2 tx) ∧
    (0 < fuel → ∀ i tx, block[i]? = some tx → Relevant O f tx → i ∈ r.2.1) := by
  intro r
  have hlen : (blockHashes block).length = block.size := (C11_blockHashes block).1
  have hidx : r.2.1 = (List.range block.size).filter
      (selectByScan (GetMatchedIndices O same fuel block f)) := by
    show (buildMsg comb (blockHashes block) _ dflt).2 = _
    simp only [buildMsg, hlen]
  have hlt : ∀ i, i ∈ (GetMatchedIndices O same fuel block f).matched → i < block.size := by
    intro i hi
    obtain ⟨tx, hb, -⟩ := scan_sound L same fuel block f i hi
    rcases Nat.lt_or_ge i block.size with h | h
    · exact h
    · rw [Array.getElem?_eq_none h] at hb; cases hb
  have hmem : ∀ i, i ∈ r.2.1 ↔ i ∈ (GetMatchedIndices O same fuel block f).matched := by
    intro i
    rw [hidx, mem_filter_range]
    simp only [selectByScan, List.contains_iff_mem]
    exact ⟨fun h => h.2, fun h => ⟨hlt i h, h⟩⟩
  refine ⟨hmem, ?_, ?_⟩
  · intro i hi
    have hi' := (hmem i).1 hi
    exact ⟨hlt i hi', scan_sound L same fuel block f i hi'⟩
  · intro hf i tx hb hr
    obtain ⟨k, rfl⟩ : ∃ k, fuel = k + 1 := ⟨fuel - 1, by omega⟩
    exact (hmem i).2 (scan_complete_a L same k block f i tx hb hr)

end Filter

/-! ### the two builders agree -/

/-- **The two builders agree** (traversal): the statement-by-statement transcription of bloom/merkleblock.go
(`buildMsgBloom`: struct threading, byte flags with `|=`, shifts, fuelled loops, in-place flag loop) and the
functional model `buildMsg` of merkleblock/encode.go produce the same message and the same index list, for every
leaf list, every subset predicate and every `dflt`. (The two Go files contain literally the same traversal code.) -/
theorem C11_builders_agree (comb : H → H → H) (leaves : List H) (m : Nat → Bool) (dflt : H) :
    buildMsgBloom comb leaves m dflt = buildMsg comb leaves m dflt :=
  buildMsgBloom_eq comb leaves m dflt

/-- **The two builders agree** (entry points): `bloom.NewMerkleBlock(block, filter)` and
`merkleblock.NewMerkleBlockWithFilter(block, filter)` return the same message, the same index list and leave the
same filter, for every block and filter. -/
theorem C11_builders_agree_filter {F : Type} (O : FilterOps F) (same : F → F → Bool) (fuel : Nat)
    (comb : Bytes → Bytes → Bytes) (block : Array Tx) (f : F) (dflt : Bytes) :
    newMerkleBlockBloom O same fuel comb block f dflt = buildWithFilter O same fuel comb block f dflt := by
  simp only [newMerkleBlockBloom, buildWithFilter, buildMsgBloom_eq]

/-- the pieces of the agreement, individually: tree width with shifts, the byte-valued `isParent` loop, the
in-place flag loop -/
theorem C11_builders_agree_parts (mb : MB H) (m : Nat → Bool)
    (ht : ∀ j, j < mb.numTx → mb.matchedBits.getD j 0 = if m j then 1 else 0) (h pos : Nat)
    (bits : List Bool) :
    mb.calcTreeWidth h = width mb.numTx h ∧
    mb.isParent h pos = (if isParentGo m mb.numTx h pos then 1 else 0) ∧
    flagLoop (bits.map fun b => if b then 1 else 0) = packFlags bits :=
  ⟨calcTreeWidth_eq mb h, isParent_eq mb m ht h pos, flagLoop_eq bits⟩

/-! ### canonicity -/

/-- **Canonicity (what acceptance determines).** Let the node combiner be injective, `msg` any message with
`numTx = leaves.length` that the extractor accepts with the block's true merkle root, and `m` any predicate that
is true exactly on the returned positions. Then, writing `canon = (buildMsg comb leaves m dflt).1` for the built
message, `canonBits` for its flag bits before packing and `used` for the number of flag bits the extractor consumed
on `msg` (the `bitsUsed` cursor):

1. *genuine*: the returned positions are `(List.range n).filter m` (strictly increasing, `< n`) — the builder's
   index list — the returned hashes are the true leaves at those positions, `BadTree` is not set;
2. *the built message is shortest*: `canonBits.length ≤ used`, `canon.hashes.length ≤ msg.hashes.length`,
   `canon.flags.length ≤ msg.flags.length`; and `msg.flags.length = (used + 7) / 8` (all the extractor checks about
   the flag bytes beyond the bits it consumed is their number);
3. *uniqueness among shortest*: if `used ≤ canonBits.length` then `msg.hashes = canon.hashes`,
   `msg.flags.length = canon.flags.length` and the first `canonBits.length` flag bits of `msg` are `canonBits`.

NOT determined: the `padLen canonBits.length < 8` high bits of the last flag byte (`C11_padding_free`); and without
the minimality hypothesis of 3 the message is not determined at all (`C11_canonical_needs_minimality`). -/
theorem C11_canonical (comb : H → H → H) (zero dflt : H) (leaves : List H) (m : Nat → Bool) (msg : Msg H)
    (hinj : ∀ a b c d, comb a b = comb c d → a = c ∧ b = d)
    (hn : msg.numTx = leaves.length)
    (hroot : (extractMsg comb zero msg).root =
      some (calcHash comb (fun i => leaves.getD i dflt) leaves.length (height leaves.length) 0))
    (hm : ∀ i, m i = true ↔ i ∈ (extractMsg comb zero msg).items) :
    let canon := (buildMsg comb leaves m dflt).1
    let canonBits := (build comb (fun i => leaves.getD i dflt) m leaves.length (height leaves.length) 0).1
    let used := (traverse comb zero msg.numTx (unpackFlags msg.flags).toArray msg.hashes.toArray
      (height msg.numTx) 0 {}).2.bitsUsed
    canon.numTx = msg.numTx ∧ canon.flags = packFlags canonBits ∧
    ((extractMsg comb zero msg).items = (List.range leaves.length).filter m ∧
      (buildMsg comb leaves m dflt).2 = (extractMsg comb zero msg).items ∧
      (extractMsg comb zero msg).matches_ =
        ((List.range leaves.length).filter m).map (fun i => leaves.getD i dflt) ∧
      (extractMsg comb zero msg).bad = false) ∧
    (canonBits.length ≤ used ∧ canon.hashes.length ≤ msg.hashes.length ∧
      canon.flags.length ≤ msg.flags.length ∧ msg.flags.length = (used + 7) / 8) ∧
    (used ≤ canonBits.length →
      msg.hashes = canon.hashes ∧ msg.flags.length = canon.flags.length ∧
      (unpackFlags msg.flags).take canonBits.length = canonBits) := by
  intro canon canonBits used
  rw [← hn] at hroot
  obtain ⟨a1, a2, a3, a4, a5, a6, a6', a7⟩ :=
    canonical_of_accept comb zero (fun i => leaves.getD i dflt) msg hinj hroot m hm
  rw [hn] at a1 a2 a4 a5 a6 a7
  exact ⟨hn.symm, rfl, ⟨a1, a1.symm, a2, a3⟩, ⟨a4, a5, a6, a6'⟩, a7⟩

/-- **Canonicity, equality form.** Under the hypotheses of `C11_canonical`, if `msg` uses no more flag bits than
the built message and its padding bits (the flag bits after the first `canonBits.length`) are all zero, then `msg`
IS the built message. -/
theorem C11_canonical_eq (comb : H → H → H) (zero dflt : H) (leaves : List H) (m : Nat → Bool) (msg : Msg H)
    (hinj : ∀ a b c d, comb a b = comb c d → a = c ∧ b = d)
    (hn : msg.numTx = leaves.length)
    (hroot : (extractMsg comb zero msg).root =
      some (calcHash comb (fun i => leaves.getD i dflt) leaves.length (height leaves.length) 0))
    (hm : ∀ i, m i = true ↔ i ∈ (extractMsg comb zero msg).items)
    (hmin : (traverse comb zero msg.numTx (unpackFlags msg.flags).toArray msg.hashes.toArray
      (height msg.numTx) 0 {}).2.bitsUsed ≤
        (build comb (fun i => leaves.getD i dflt) m leaves.length (height leaves.length) 0).1.length)
    (hpad : ∀ b ∈ (unpackFlags msg.flags).drop
        (build comb (fun i => leaves.getD i dflt) m leaves.length (height leaves.length) 0).1.length,
      b = false) :
    msg = (buildMsg comb leaves m dflt).1 := by
  obtain ⟨c1, c2, -, -, c5⟩ := C11_canonical comb zero dflt leaves m msg hinj hn hroot hm
  obtain ⟨e1, e2, e3⟩ := c5 hmin
  rw [c2] at e2
  have hf := flags_eq_of_zero_pad msg.flags _ e2 e3 hpad
  rw [← c2] at hf
  cases msg
  simp only at c1 e1 hf
  subst c1 e1 hf
  rfl

/-- **Canonicity, characterisation.** For an injective combiner, a block of `1 ≤ n ≤ maxTxnCount` leaves and a
subset `m ⊆ {0..n-1}` satisfying `NoEqualSiblings`: a message IS the built message for `m` if and only if it has
`numTx = n`, is accepted with the true root, reveals exactly the positions of `m`, consumes no more flag bits than
the built message has, and has zero padding bits. -/
theorem C11_canonical_iff (comb : H → H → H) (zero dflt : H) (leaves : List H) (m : Nat → Bool) (msg : Msg H)
    (hinj : ∀ a b c d, comb a b = comb c d → a = c ∧ b = d)
    (h1 : 1 ≤ leaves.length) (h2 : leaves.length ≤ maxTxnCount)
    (hmn : ∀ i, m i = true → i < leaves.length)
    (hne : NoEqualSiblings comb (fun i => leaves.getD i dflt) m leaves.length) :
    msg = (buildMsg comb leaves m dflt).1 ↔
      (msg.numTx = leaves.length ∧
       (extractMsg comb zero msg).root =
         some (calcHash comb (fun i => leaves.getD i dflt) leaves.length (height leaves.length) 0) ∧
       (∀ i, m i = true ↔ i ∈ (extractMsg comb zero msg).items) ∧
       (traverse comb zero msg.numTx (unpackFlags msg.flags).toArray msg.hashes.toArray
          (height msg.numTx) 0 {}).2.bitsUsed ≤
         (build comb (fun i => leaves.getD i dflt) m leaves.length (height leaves.length) 0).1.length ∧
       ∀ b ∈ (unpackFlags msg.flags).drop
         (build comb (fun i => leaves.getD i dflt) m leaves.length (height leaves.length) 0).1.length,
         b = false) := by
  constructor
  · rintro rfl
    have hr := (roundtrip_msg comb zero dflt leaves m h1 h2 hne).1
    obtain ⟨u1, u2⟩ := built_used comb zero (fun i => leaves.getD i dflt) m leaves.length
      (noEqSib_of_NoEqualSiblings hne _ _)
    refine ⟨rfl, by rw [hr], ?_, Nat.le_of_eq u1, u2⟩
    intro i
    rw [hr, mem_filter_range]
    exact ⟨fun h => ⟨hmn i h, h⟩, fun h => h.2⟩
  · rintro ⟨hn, hroot, hm, hmin, hpad⟩
    exact C11_canonical_eq comb zero dflt leaves m msg hinj hn hroot hm hmin hpad

/-- **The padding bits are free.** For every subset, the built message with *arbitrary* bits `pad` in the unused
high positions of its last flag byte is accepted with exactly the same result as the built message itself
(`pad = replicate … false` is the built message, `C11_flags_pack`). So a merkle-block message is malleable in up to
7 bits; the extractor only checks the byte count. -/
theorem C11_padding_free (comb : H → H → H) (zero dflt : H) (leaves : List H) (m : Nat → Bool)
    (h1 : 1 ≤ leaves.length) (h2 : leaves.length ≤ maxTxnCount)
    (hne : NoEqualSiblings comb (fun i => leaves.getD i dflt) m leaves.length) (pad : List Bool)
    (hpad : pad.length =
      padLen (build comb (fun i => leaves.getD i dflt) m leaves.length (height leaves.length) 0).1.length) :
    extractMsg comb zero
        { (buildMsg comb leaves m dflt).1 with
          flags := packFlags
            ((build comb (fun i => leaves.getD i dflt) m leaves.length (height leaves.length) 0).1 ++ pad) } =
      extractMsg comb zero (buildMsg comb leaves m dflt).1 ∧
    (packFlags
        ((build comb (fun i => leaves.getD i dflt) m leaves.length (height leaves.length) 0).1 ++ pad)).length =
      (buildMsg comb leaves m dflt).1.flags.length := by
  refine ⟨?_, ?_⟩
  · rw [(roundtrip_msg comb zero dflt leaves m h1 h2 hne).1]
    exact extract_build_pad comb zero _ m _ h1 h2 (noEqSib_of_NoEqualSiblings hne _ _) pad hpad
  · show _ = (packFlags _).length
    rw [packFlags_length', packFlags_length', List.length_append, hpad]
    have := padLen_spec
      (build comb (fun i => leaves.getD i dflt) m leaves.length (height leaves.length) 0).1.length
    have := padLen_lt
      (build comb (fun i => leaves.getD i dflt) m leaves.length (height leaves.length) 0).1.length
    omega

/-! ### non-vacuity and counterexamples (free tree algebra `FreeTree`: `node` is injective by construction) -/

section Examples
open FreeTree

/-- `node` satisfies both injectivity hypotheses used above -/
example : (∀ a b c d, node a b = node c d → a = c) ∧ (∀ a b c d, node a b = node c d → a = c ∧ b = d) :=
  ⟨fun _ _ _ _ h => by injection h, fun _ _ _ _ h => by injection h with h1 h2; exact ⟨h1, h2⟩⟩

/-- `C11_set_roundtrip_distinct` on five distinct leaves; the set has a hash not in the block (`leaf 77`), a
repetition, and is not in block order: revealed are `leaf 1` and `leaf 4` at positions 1 and 4, in block order. -/
example : exLeaves.Nodup ∧
    extractMsg node (leaf 99) (buildWithTxnSet node exLeaves [leaf 4, leaf 77, leaf 1, leaf 1] (leaf 0)).1 =
      ⟨some (node (node (node (leaf 0) (leaf 1)) (node (leaf 2) (leaf 3)))
                  (node (node (leaf 4) (leaf 4)) (node (leaf 4) (leaf 4)))),
       [leaf 1, leaf 4], [1, 4], false⟩ ∧
    (buildWithTxnSet node exLeaves [leaf 4, leaf 77, leaf 1, leaf 1] (leaf 0)).2 = [1, 4] := by
  have hnd : exLeaves.Nodup := by decide
  obtain ⟨h, h', -⟩ := C11_set_roundtrip_distinct node (leaf 99) (leaf 0) exLeaves
    [leaf 4, leaf 77, leaf 1, leaf 1] (by decide) (by decide) (fun _ _ _ _ h => by injection h) hnd
  refine ⟨hnd, ?_, ?_⟩
  · rw [h]
    simp only [Extracted.mk.injEq, Option.some.injEq]
    decide
  · rw [h']; decide

/-- a block with a duplicated transaction hash (`dupLeaves = [leaf 0, leaf 1, leaf 2, leaf 1]`): the hypothesis of the
general `C11_set_roundtrip` holds for it (`dupLeaves_ok`) although the leaves are not distinct, and asking for `leaf 1`
reveals BOTH copies, positions 1 and 3 (`TxInSet` compares hash values). When the two
copies are siblings the built message is rejected instead (`C11_rejects_equal_siblings`, example in `Props/C11`). -/
example : ¬ dupLeaves.Nodup ∧
    extractMsg node (leaf 99) (buildWithTxnSet node dupLeaves [leaf 1] (leaf 0)).1 =
      ⟨some (node (node (leaf 0) (leaf 1)) (node (leaf 2) (leaf 1))), [leaf 1, leaf 1], [1, 3], false⟩ := by
  refine ⟨by decide, ?_⟩
  rw [(C11_set_roundtrip node (leaf 99) (leaf 0) dupLeaves [leaf 1] (by decide) (by decide) dupLeaves_ok).1]
  simp only [Extracted.mk.injEq, Option.some.injEq]
  decide

/-- `buildMsgBloom` (the statement-by-statement transcription) evaluated on the five-leaf example: flag bits
`1 1 1 0 1 0 1 1 | 1`, i.e. bytes `0xD7 0x01` — the in-place flag loop crosses a byte boundary. -/
example : (buildMsgBloom node exLeaves exM (leaf 0)).1.flags = [0xD7, 0x01] ∧
    (buildMsgBloom node exLeaves exM (leaf 0)).1.hashes =
      [leaf 0, leaf 1, node (leaf 2) (leaf 3), leaf 4] ∧
    (buildMsgBloom node exLeaves exM (leaf 0)).1.numTx = 5 ∧
    (buildMsgBloom node exLeaves exM (leaf 0)).2 = [1, 4] := by decide

section FilterExample
open Bch.Proofs.BloomTx.Toy

/-- `C11_filter_roundtrip` on the C10 example block `blk = #[txB, txA, txC]` (child `txB` listed before its parent
`txA`), toy filter `[[7]]`, toy combiner `catComb` = concatenation (hypothesis: `blk_ok`): root of `[0xB],[0xA],[0xC]`, revealed `[0xB]` and `[0xA]` at positions 0 and 1;
the filter handed back has learnt the outpoint `(txA, 0)`. -/
example :
    let r := buildWithFilter toyOps toySame 5 catComb blk [[7]] []
    extractMsg catComb [] r.1 = ⟨some [0xB, 0xA, 0xC, 0xC], [[0xB], [0xA]], [0, 1], false⟩ ∧
    r.2.1 = [0, 1] ∧ r.2.2 = [[0xA, 0, 0, 0, 0], [7]] := by
  intro r
  obtain ⟨h, h', h'', -⟩ := C11_filter_roundtrip toyOps toySame 5 catComb [] [] blk [[7]] (by decide) (by decide) blk_ok
  refine ⟨?_, ?_, ?_⟩
  · rw [h]
    simp only [Extracted.mk.injEq, Option.some.injEq]
    decide
  · rw [h']; decide
  · rw [h'']; decide

/-- the hypotheses of `C11_filter_relevant` are satisfiable -/
example : LawfulOn toyOps (fun _ => True) := toy_lawful.on

end FilterExample

/-- **Minimality cannot be dropped, and cannot be read off the sizes.** Block `ex3 = [leaf 0, leaf 1, leaf 2]`, subset
`{0}`: the built message has flag bits `1 1 1 0 0` and hashes `[leaf 0, leaf 1, node (leaf 2) (leaf 2)]`; `ex3Alt` expands
the right inner node (no chosen leaf below it, one real child): flag bits `1 1 1 0 1 0` (= `0x17`), hashes
`[leaf 0, leaf 1, leaf 2]`. `ex3Alt` is accepted with exactly the same
result as the built message (true root, the same revealed leaf at the same position), has the same `numTx`, the same
number of hashes and the same number of flag bytes — and is a different message. (It uses 6 flag bits, the built one
5: hypothesis 3 of `C11_canonical` fails for it.) -/
theorem C11_canonical_needs_minimality :
    let canon := (buildMsg node ex3 (fun i => i == 0) (leaf 0)).1
    extractMsg node (leaf 99) ex3Alt = extractMsg node (leaf 99) canon ∧
    extractMsg node (leaf 99) ex3Alt =
      ⟨some (node (node (leaf 0) (leaf 1)) (node (leaf 2) (leaf 2))), [leaf 0], [0], false⟩ ∧
    ex3Alt.numTx = canon.numTx ∧ ex3Alt.hashes.length = canon.hashes.length ∧
    ex3Alt.flags.length = canon.flags.length ∧ ex3Alt.hashes ≠ canon.hashes := by
  intro canon
  have hp : PreOK ex3Alt := by unfold PreOK; decide
  have hAlt : extractMsg node (leaf 99) ex3Alt =
      ⟨some (node (node (leaf 0) (leaf 1)) (node (leaf 2) (leaf 2))), [leaf 0], [0], false⟩ := by
    rw [extractMsg_of_ok node (leaf 99) _ hp (r := node (node (leaf 0) (leaf 1)) (node (leaf 2) (leaf 2)))
      (ms := [(0, leaf 0)]) (bs' := [false, false]) (hs' := []) rfl]
    simp
  have hnd : ex3.Nodup := by decide
  have hC := (roundtrip_msg node (leaf 99) (leaf 0) ex3 (fun i => i == 0) (by decide) (by decide)
    (distinct_ok node ex3 (leaf 0) (fun _ _ _ _ h => by injection h) hnd _)).1
  have hflags : canon.flags.length = 1 := by
    show (packFlags _).length = 1
    rw [packFlags_length']; decide
  refine ⟨?_, hAlt, rfl, by decide, by rw [hflags]; rfl, by decide⟩
  rw [hAlt, hC]
  simp only [Extracted.mk.injEq, Option.some.injEq]
  decide

/-- the hypotheses of `C11_canonical` hold for `ex3Alt` (so its conclusions 1 and 2 apply to it) and for the built
message (for which also the minimality hypothesis of conclusion 3 and of `C11_canonical_eq` holds) -/
example : ex3Alt.numTx = ex3.length ∧
    (extractMsg node (leaf 99) ex3Alt).root =
      some (calcHash node (fun i => ex3.getD i (leaf 0)) ex3.length (height ex3.length) 0) ∧
    (∀ i, (fun i => i == 0) i = true ↔ i ∈ (extractMsg node (leaf 99) ex3Alt).items) := by
  obtain ⟨-, h, -⟩ := C11_canonical_needs_minimality
  refine ⟨rfl, ?_, ?_⟩
  · rw [h]; decide
  · intro i; rw [h]; simp

/-- `C11_padding_free` instance: the built five-leaf message has 9 flag bits, hence 7 free padding bits; setting all
of them (`0x01` becomes `0xFF`) changes nothing for the extractor. -/
example :
    extractMsg node (leaf 99) ⟨5, [leaf 0, leaf 1, node (leaf 2) (leaf 3), leaf 4], [0xD7, 0xFF]⟩ =
      extractMsg node (leaf 99) (buildMsg node exLeaves exM (leaf 0)).1 ∧
    (buildMsg node exLeaves exM (leaf 0)).1.flags = [0xD7, 0x01] := by
  have hnd : exLeaves.Nodup := by decide
  have h := (C11_padding_free node (leaf 99) (leaf 0) exLeaves exM (by decide) (by decide)
    (distinct_ok node exLeaves (leaf 0) (fun _ _ _ _ h => by injection h) hnd _)
    (List.replicate 7 true) (by decide)).1
  have e1 : packFlags ((build node (fun i => exLeaves.getD i (leaf 0)) exM exLeaves.length
      (height exLeaves.length) 0).1 ++ List.replicate 7 true) = [0xD7, 0xFF] := by
    rw [← flagLoop_eq]; decide
  have e2 : (buildMsg node exLeaves exM (leaf 0)).1.flags = [0xD7, 0x01] := by
    show packFlags _ = _
    rw [← flagLoop_eq]; decide
  rw [e1] at h
  exact ⟨h, e2⟩

end Examples

end Bch.Props.C11
