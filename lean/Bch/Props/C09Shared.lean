import Bch.Model.BloomShared
import Bch.Props.C09
/-
C09 over message objects that may share their bit arrays (`Model/BloomShared.lean`) — the generalisation of
`Props/C09Obj.lean` asked for by the clause audit (DESIGN 8i): two `wire.MsgFilterLoad` values pointing at one backing
array, loaded into the filter one after the other.

* `C09_shared_view_step`: the value-level model is still the view "object pointed at".
* `C09_shared_frame`: an operation writes at most ONE bit array — the one the loaded object points at; every other
  array, every header and the object list are untouched (`Reload`, `Unload` write nothing).  Objects that share the
  written array see the new bits (`C09_shared_sees`): that is the aliasing, stated.
* `C09_shared_no_false_negatives`: after ANY history, every object still reports every item that was ever inserted
  THROUGH it — insertions made through other objects into a shared array only set further bits.
-/
namespace Bch.Props.C09
open Bch Bch.Model Bch.Model.Bloom Bch.Model.BloomShared Bch.Proofs.Bloom

namespace Shared

def WF (s : State) : Prop :=
  (∀ k, s.cur = some k → k < s.objs.length) ∧ (∀ h ∈ s.objs, h.arr < s.arrs.length)

/-- `matchesMsg` only grows when bits are added to an array of the same length, whatever the header -/
theorem matches_bits_mono (b b' : Bytes) (n : Nat) (t : UInt32) (f : Nat) (hl : b'.length = b.length)
    (hm : ∀ i, testBit b i = true → testBit b' i = true) (y : Bytes)
    (h : matchesMsg ⟨b, n, t, f⟩ y = true) : matchesMsg ⟨b', n, t, f⟩ y = true := by
  by_cases h0 : b = []
  · subst h0
    have : b' = [] := List.eq_nil_of_length_eq_zero (by simpa using hl)
    subst this; exact h
  · have h0' : b' ≠ [] := by
      intro e; subst e; exact h0 (List.eq_nil_of_length_eq_zero (by simpa using hl.symm))
    rw [matchesMsg_iff _ _ (by simpa using h0')]
    rw [matchesMsg_iff _ _ (by simpa using h0)] at h
    intro i hi
    have e : hashIdx ⟨b', n, t, f⟩ i y = hashIdx ⟨b, n, t, f⟩ i y := by simp [hashIdx, hl]
    rw [e]
    exact hm _ (h i hi)

theorem msgAt_some (s : State) (k : Nat) (hk : k < s.objs.length) (ha : s.objs[k].arr < s.arrs.length) :
    msgAt s k = some ⟨s.arrs[s.objs[k].arr], s.objs[k].nHash, s.objs[k].tweak, s.objs[k].flags⟩ := by
  simp [msgAt, List.getElem?_eq_getElem hk, List.getElem?_eq_getElem ha]

end Shared
open Shared

/-- every object, array and pointer stays in range -/
theorem C09_shared_wf_step (s : State) (op : BloomShared.Op) (h : WF s) : WF (BloomShared.step s op).1 := by
  obtain ⟨hc, ha⟩ := h
  cases op with
  | reloadObj k =>
    simp only [BloomShared.step]; split
    · exact ⟨fun j hj => by cases hj; assumption, ha⟩
    · exact ⟨hc, ha⟩
  | reloadShare j n t f =>
    simp only [BloomShared.step]
    split
    · rename_i hj e
      refine ⟨fun k hk => by cases hk; simp, ?_⟩
      intro h hm
      rcases List.mem_append.1 hm with hm | hm
      · exact ha h hm
      · have : h = ⟨hj.arr, n, t, f⟩ := by simpa using hm
        subst this
        exact ha hj (List.mem_of_getElem? e)
    · exact ⟨hc, ha⟩
  | base b =>
    cases b with
    | reload m =>
      refine ⟨fun k hk => by cases hk; simp [BloomShared.step], ?_⟩
      intro h hm
      simp only [BloomShared.step] at hm ⊢
      rcases List.mem_append.1 hm with hm | hm
      · have := ha h hm; simp; omega
      · have : h = ⟨s.arrs.length, m.nHash, m.tweak, m.flags⟩ := by simpa using hm
        subst this; simp
    | unload => exact ⟨fun k hk => by simp [BloomShared.step] at hk, ha⟩
    | add d => refine ⟨hc, ?_⟩; intro h hm; simp only [BloomShared.step]; split <;> simp [ha h hm]
    | addHash d => refine ⟨hc, ?_⟩; intro h hm; simp only [BloomShared.step]; split <;> simp [ha h hm]
    | addOutPoint d i => refine ⟨hc, ?_⟩; intro h hm; simp only [BloomShared.step]; split <;> simp [ha h hm]
    | query d => refine ⟨hc, ?_⟩; intro h hm; simp only [BloomShared.step]; split <;> simp [ha h hm]
    | queryOutPoint d i => refine ⟨hc, ?_⟩; intro h hm; simp only [BloomShared.step]; split <;> simp [ha h hm]
    | isLoaded => refine ⟨hc, ?_⟩; intro h hm; simp only [BloomShared.step]; split <;> simp [ha h hm]

/-- **frame**: headers are never changed, objects never removed, and an operation writes at most the ONE bit array the
    loaded object points at; `Reload` (of a new object, of a new object sharing an array, of an earlier object) and
    `Unload` write to no array at all. -/
theorem C09_shared_frame (s : State) (op : BloomShared.Op) :
    (∀ k, k < s.objs.length → (BloomShared.step s op).1.objs[k]? = s.objs[k]?) ∧
    (∀ a, a < s.arrs.length → (∀ k h, s.cur = some k → s.objs[k]? = some h → h.arr ≠ a) →
        (BloomShared.step s op).1.arrs[a]? = s.arrs[a]?) ∧
    ((∃ m, op = .base (.reload m)) ∨ op = .base .unload ∨ (∃ j n t f, op = .reloadShare j n t f) ∨ (∃ k, op = .reloadObj k) →
        ∀ a, a < s.arrs.length → (BloomShared.step s op).1.arrs[a]? = s.arrs[a]?) := by
  refine ⟨?_, ?_, ?_⟩
  · intro k hk
    cases op with
    | reloadObj j => simp only [BloomShared.step]; split <;> rfl
    | reloadShare j n t f => simp only [BloomShared.step]; split <;> simp [List.getElem?_append_left hk]
    | base b => cases b <;> simp [BloomShared.step, List.getElem?_append_left hk]
  · intro a ha hne
    cases op with
    | reloadObj j => simp only [BloomShared.step]; split <;> rfl
    | reloadShare j n t f => simp only [BloomShared.step]; split <;> rfl
    | base b =>
      cases b <;> simp only [BloomShared.step] <;> first
        | (simp [List.getElem?_append_left ha])
        | rfl
        | skip
      all_goals
        split
        · rename_i hh m' e _
          cases hc : s.cur with
          | none => simp [hc] at e
          | some k =>
            simp only [hc, Option.bind_some] at e
            have := hne k hh hc e
            simp [List.getElem?_set, this]
        · rfl
  · intro hop a ha
    rcases hop with ⟨m, rfl⟩ | rfl | ⟨j, n, t, f, rfl⟩ | ⟨k, rfl⟩
    · simp [BloomShared.step, List.getElem?_append_left ha]
    · rfl
    · simp only [BloomShared.step]; split <;> rfl
    · simp only [BloomShared.step]; split <;> rfl

/-- **refinement**: the value-level model is the view "object pointed at" (for the operations of `Bloom.Op`; the
    two object-level reloads amount to the `reload` of the message value the object denotes) -/
theorem C09_shared_view_step (s : State) (op : Bloom.Op) (h : WF s) :
    view (BloomShared.step s (.base op)).1 = (Bloom.step (view s) op).1 ∧
    (BloomShared.step s (.base op)).2 = (Bloom.step (view s) op).2 := by
  obtain ⟨hc, ha⟩ := h
  have wr : ∀ (k : Nat) (hk : k < s.objs.length) (m' : Msg), s.cur = some k →
      m'.nHash = s.objs[k].nHash → m'.tweak = s.objs[k].tweak → m'.flags = s.objs[k].flags →
      view { s with arrs := s.arrs.set s.objs[k].arr m'.bits } = some m' := by
    intro k hk m' hcur e1 e2 e3
    have hak := ha _ (List.getElem_mem hk)
    cases m'
    simp_all [view, msgAt, List.getElem?_eq_getElem hk, List.getElem?_set_self hak]
  have key : ∀ d : Bytes, view (BloomShared.step s (.base (.add d))).1 = Bloom.add (view s) d ∧
      view (BloomShared.step s (.base (.addHash d))).1 = Bloom.add (view s) d := by
    intro d
    cases hcur : s.cur with
    | none => simp [BloomShared.step, Bloom.step, view, hcur, Bloom.add]
    | some k =>
      have hk := hc k hcur
      have hak := ha _ (List.getElem_mem hk)
      have e := msgAt_some s k hk hak
      have hv : view s = some ⟨s.arrs[s.objs[k].arr], s.objs[k].nHash, s.objs[k].tweak, s.objs[k].flags⟩ := by
        simp [view, hcur, e]
      have w := wr k hk (addMsg ⟨s.arrs[s.objs[k].arr], s.objs[k].nHash, s.objs[k].tweak, s.objs[k].flags⟩ d) hcur
        (by simp) (by simp) (by simp)
      simp only [BloomShared.step, Bloom.step, hv, Bloom.add, Option.map_some, hcur, Option.bind_some,
        List.getElem?_eq_getElem hk]
      rw [hcur] at w
      exact ⟨w, w⟩
  cases op with
  | reload m =>
    simp [BloomShared.step, Bloom.step, view, msgAt]
  | unload => simp [BloomShared.step, Bloom.step, view]
  | add d => exact ⟨(key d).1, rfl⟩
  | addHash d => exact ⟨(key d).2, rfl⟩
  | addOutPoint d i =>
    refine ⟨?_, rfl⟩
    have := (key (outPointBytes d i)).1
    simpa [BloomShared.step, Bloom.step, Bloom.addOutPoint] using this
  | query d =>
    refine ⟨?_, rfl⟩
    cases hcur : s.cur with
    | none => simp [BloomShared.step, Bloom.step, view, hcur]
    | some k =>
      have hk := hc k hcur
      have hak := ha _ (List.getElem_mem hk)
      simp [BloomShared.step, Bloom.step, view, hcur, msgAt, List.getElem?_eq_getElem hk, List.getElem?_eq_getElem hak]
  | queryOutPoint d i =>
    refine ⟨?_, rfl⟩
    cases hcur : s.cur with
    | none => simp [BloomShared.step, Bloom.step, view, hcur]
    | some k =>
      have hk := hc k hcur
      have hak := ha _ (List.getElem_mem hk)
      simp [BloomShared.step, Bloom.step, view, hcur, msgAt, List.getElem?_eq_getElem hk, List.getElem?_eq_getElem hak]
  | isLoaded =>
    refine ⟨?_, rfl⟩
    cases hcur : s.cur with
    | none => simp [BloomShared.step, Bloom.step, view, hcur]
    | some k =>
      have hk := hc k hcur
      have hak := ha _ (List.getElem_mem hk)
      simp [BloomShared.step, Bloom.step, view, hcur, msgAt, List.getElem?_eq_getElem hk, List.getElem?_eq_getElem hak]

/-! ### no false negatives, with sharing -/

/-- the message value a header denotes (totalised: a dangling array index reads as the empty array) -/
def Shared.msgOf (s : State) (h : Hdr) : Msg := ⟨s.arrs.getD h.arr [], h.nHash, h.tweak, h.flags⟩

/-- every object reports everything inserted THROUGH it; arrays stay within the wire limit -/
def Shared.Inv (s : State) (ins : List (List Bytes)) : Prop :=
  WF s ∧ ins.length = s.objs.length ∧ (∀ b ∈ s.arrs, b.length ≤ 36000) ∧
  ∀ k (hk : k < s.objs.length), ∀ x ∈ ins.getD k [], matchesMsg (Shared.msgOf s s.objs[k]) x = true

private theorem addMsg_eq (b : Bytes) (n : Nat) (t : UInt32) (f : Nat) (d : Bytes) :
    addMsg ⟨b, n, t, f⟩ d = ⟨(addMsg ⟨b, n, t, f⟩ d).bits, n, t, f⟩ := by
  have h1 := addMsg_nHash ⟨b, n, t, f⟩ d
  have h2 := addMsg_tweak ⟨b, n, t, f⟩ d
  have h3 := addMsg_flags ⟨b, n, t, f⟩ d
  cases h : addMsg ⟨b, n, t, f⟩ d
  simp_all

private theorem getD_modify_self'' (ins : List (List Bytes)) (k : Nat) (d : Bytes) (hk : k < ins.length) :
    (ins.modify k (d :: ·)).getD k [] = d :: ins.getD k [] := by
  simp [List.getD_eq_getElem?_getD, List.getElem?_modify, List.getElem?_eq_getElem hk]

private theorem getD_modify_ne'' (ins : List (List Bytes)) (k j : Nat) (d : Bytes) (h : k ≠ j) :
    (ins.modify k (d :: ·)).getD j [] = ins.getD j [] := by
  simp only [List.getD_eq_getElem?_getD, List.getElem?_modify]
  cases ins[j]? <;> simp [h]

/-- one insertion through the loaded object `c` keeps the invariant — also for the objects that share its array -/
private theorem inv_insert_shared (s : State) (ins : List (List Bytes)) (h : Shared.Inv s ins) (c : Nat)
    (hkc : c < s.objs.length) (hcur : s.cur = some c) (d : Bytes) :
    Shared.Inv { s with arrs := s.arrs.set s.objs[c].arr (addMsg (Shared.msgOf s s.objs[c]) d).bits }
      (ins.modify c (d :: ·)) := by
  obtain ⟨⟨hc, ha⟩, hl, hlim, hall⟩ := h
  have hac := ha _ (List.getElem_mem hkc)
  have eb : s.arrs[s.objs[c].arr]?.getD [] = s.arrs[s.objs[c].arr] := by
    simp [List.getElem?_eq_getElem hac]
  have hmsg : ∀ (k : Nat) (hk : k < s.objs.length), s.objs[k].arr = s.objs[c].arr →
      Shared.msgOf s s.objs[k] = ⟨s.arrs[s.objs[c].arr], s.objs[k].nHash, s.objs[k].tweak, s.objs[k].flags⟩ := by
    intro k hk ea
    simp only [Shared.msgOf, List.getD_eq_getElem?_getD, ea, eb]
  have hmc := hmsg c hkc rfl
  have hb : (s.arrs[s.objs[c].arr]).length ≤ 36000 := hlim _ (List.getElem_mem hac)
  refine ⟨⟨hc, fun h' hm => by simpa using ha h' hm⟩, by simp [hl], ?_, ?_⟩
  · intro b hbm
    rcases List.mem_or_eq_of_mem_set hbm with hbm | rfl
    · exact hlim b hbm
    · rw [addMsg_length, hmc]; exact hb
  · intro k hk x hx
    have hk' : k < s.objs.length := hk
    by_cases ea : s.objs[k].arr = s.objs[c].arr
    · -- object k reads the written array
      have hnew : Shared.msgOf { s with arrs := s.arrs.set s.objs[c].arr (addMsg (Shared.msgOf s s.objs[c]) d).bits } s.objs[k] =
          ⟨(addMsg (Shared.msgOf s s.objs[c]) d).bits, s.objs[k].nHash, s.objs[k].tweak, s.objs[k].flags⟩ := by
        simp only [Shared.msgOf, List.getD_eq_getElem?_getD, ea, List.getElem?_set_self hac, Option.getD_some]
      show matchesMsg (Shared.msgOf _ s.objs[k]) x = true
      rw [hnew]
      have mono : ∀ y, matchesMsg (Shared.msgOf s s.objs[k]) y = true →
          matchesMsg ⟨(addMsg (Shared.msgOf s s.objs[c]) d).bits, s.objs[k].nHash, s.objs[k].tweak, s.objs[k].flags⟩ y = true := by
        intro y hy
        rw [hmsg k hk' ea] at hy
        refine matches_bits_mono _ _ _ _ _ ?_ ?_ y hy
        · rw [addMsg_length, hmc]
        · intro i hi
          have := testBit_addMsg_mono (Shared.msgOf s s.objs[c]) d i (by rw [hmc]; exact hi)
          exact this
      by_cases ek : k = c
      · subst ek
        rw [getD_modify_self'' _ _ _ (hl ▸ hk'), List.mem_cons] at hx
        rcases hx with rfl | hx
        · have := addMsg_matches (Shared.msgOf s s.objs[k]) x (by rw [hmc]; show (s.arrs[s.objs[k].arr]).length < 2 ^ 29; omega)
          rw [hmc] at this ⊢
          rw [addMsg_eq] at this
          exact this
        · exact mono x (hall k hk' x hx)
      · rw [getD_modify_ne'' _ _ _ _ (fun e => ek e.symm)] at hx
        exact mono x (hall k hk' x hx)
    · -- another array: unchanged
      have ek : c ≠ k := fun e => ea (by subst e; rfl)
      rw [getD_modify_ne'' _ _ _ _ ek] at hx
      have : Shared.msgOf { s with arrs := s.arrs.set s.objs[c].arr (addMsg (Shared.msgOf s s.objs[c]) d).bits } s.objs[k] =
          Shared.msgOf s s.objs[k] := by
        simp only [Shared.msgOf, List.getD_eq_getElem?_getD, List.getElem?_set_ne (Ne.symm ea)]
      show matchesMsg (Shared.msgOf _ s.objs[k]) x = true
      rw [this]
      exact hall k hk' x hx

private theorem view_eq (s : State) (h : WF s) (c : Nat) (hkc : c < s.objs.length) (hcur : s.cur = some c) :
    view s = some (Shared.msgOf s s.objs[c]) := by
  have hac := h.2 _ (List.getElem_mem hkc)
  simp [view, hcur, msgAt, Shared.msgOf, List.getElem?_eq_getElem hkc, List.getElem?_eq_getElem hac,
    List.getD_eq_getElem?_getD]

private theorem step_insert_eq (s : State) (h : WF s) (c : Nat) (hkc : c < s.objs.length) (hcur : s.cur = some c)
    (op : Bloom.Op) (d : Bytes)
    (hop : op = .add d ∨ op = .addHash d ∨ (∃ hh i, op = .addOutPoint hh i ∧ d = outPointBytes hh i)) :
    (BloomShared.step s (.base op)).1 =
      { s with arrs := s.arrs.set s.objs[c].arr (addMsg (Shared.msgOf s s.objs[c]) d).bits } := by
  have hv := view_eq s h c hkc hcur
  rcases hop with rfl | rfl | ⟨hh, i, rfl, rfl⟩ <;>
    simp [BloomShared.step, Bloom.step, hv, hcur, Bloom.add, Bloom.addOutPoint, List.getElem?_eq_getElem hkc]

private theorem step_readonly_eq (s : State) (h : WF s) (op : Bloom.Op)
    (hop : (∃ d, op = .query d) ∨ (∃ d i, op = .queryOutPoint d i) ∨ op = .isLoaded) :
    (BloomShared.step s (.base op)).1 = s := by
  cases hcur : s.cur with
  | none => rcases hop with ⟨d, rfl⟩ | ⟨d, i, rfl⟩ | rfl <;> (cases s; simp_all [BloomShared.step, Bloom.step, view])
  | some c =>
    have hkc := h.1 c hcur
    have hv := view_eq s h c hkc hcur
    have hac := h.2 _ (List.getElem_mem hkc)
    rcases hop with ⟨d, rfl⟩ | ⟨d, i, rfl⟩ | rfl <;>
    · cases s
      simp_all [BloomShared.step, Bloom.step, Shared.msgOf, List.getD_eq_getElem?_getD,
        List.getElem?_eq_getElem hkc, List.getElem?_eq_getElem hac]

private theorem msgOf_append_arrs (s : State) (extra : List Bytes) (objs' : List Hdr) (cur' : Option Nat) (h : Hdr)
    (ha : h.arr < s.arrs.length) : Shared.msgOf (State.mk (s.arrs ++ extra) objs' cur') h = Shared.msgOf s h := by
  simp [Shared.msgOf, List.getD_eq_getElem?_getD, List.getElem?_append_left ha]

/-- **the invariant is preserved by every operation** (new messages within the wire limit) -/
theorem C09_shared_inv_step (s : State) (ins : List (List Bytes)) (op : BloomShared.Op) (h : Shared.Inv s ins)
    (hm : ∀ m, op = .base (.reload m) → m.bits.length ≤ 36000) :
    Shared.Inv (BloomShared.step s op).1 (insStep s ins op) := by
  have wf' := C09_shared_wf_step s op h.1
  obtain ⟨wf, hl, hlim, hall⟩ := h
  have insertCase : ∀ (bop : Bloom.Op) (d : Bytes),
      (bop = .add d ∨ bop = .addHash d ∨ (∃ hh i, bop = .addOutPoint hh i ∧ d = outPointBytes hh i)) →
      insStep s ins (.base bop) = (match s.cur with | some k => ins.modify k (d :: ·) | none => ins) →
      Shared.Inv (BloomShared.step s (.base bop)).1 (insStep s ins (.base bop)) := by
    intro bop d hop hins
    cases hcur : s.cur with
    | none =>
      have : (BloomShared.step s (.base bop)).1 = s := by
        rcases hop with rfl | rfl | ⟨hh, i, rfl, rfl⟩ <;>
          (cases s; simp_all [BloomShared.step, Bloom.step, view, Bloom.add, Bloom.addOutPoint])
      rw [this, hins, hcur]; exact ⟨wf, hl, hlim, hall⟩
    | some c =>
      have hkc := wf.1 c hcur
      rw [step_insert_eq s wf c hkc hcur bop d hop, hins]
      have := inv_insert_shared s ins ⟨wf, hl, hlim, hall⟩ c hkc hcur d
      simpa [hcur] using this
  cases op with
  | reloadObj k =>
    refine ⟨wf', ?_, ?_, ?_⟩ <;> simp only [BloomShared.step, insStep] <;> split <;> first | exact hl | exact hlim | exact hall
  | reloadShare j n t f =>
    by_cases hj : j < s.objs.length
    · have e : s.objs[j]? = some s.objs[j] := List.getElem?_eq_getElem hj
      have hst : (BloomShared.step s (.reloadShare j n t f)).1 =
          { s with objs := s.objs ++ [(Hdr.mk s.objs[j].arr n t f)], cur := some s.objs.length } := by
        simp [BloomShared.step, e]
      rw [hst] at wf' ⊢
      refine ⟨wf', by simp [insStep, hj, hl], hlim, ?_⟩
      intro k hk x hx
      simp only [List.length_append, List.length_singleton] at hk
      by_cases ek : k < s.objs.length
      · have : (s.objs ++ [(Hdr.mk s.objs[j].arr n t f)])[k] = s.objs[k] := List.getElem_append_left ek
        show matchesMsg (Shared.msgOf _ (s.objs ++ [(Hdr.mk s.objs[j].arr n t f)])[k]) x = true
        rw [this]
        have hx' : x ∈ ins.getD k [] := by
          have : k < ins.length := hl ▸ ek
          simpa [insStep, hj, List.getD_eq_getElem?_getD, List.getElem?_append_left this] using hx
        exact hall k ek x hx'
      · have : k = s.objs.length := by omega
        subst this
        have hj' : j < ins.length := hl ▸ hj
        simp [insStep, hj, hj', List.getD_eq_getElem?_getD, ← hl] at hx
    · have e : s.objs[j]? = none := List.getElem?_eq_none (Nat.le_of_not_lt hj)
      have hst : (BloomShared.step s (.reloadShare j n t f)).1 = s := by simp [BloomShared.step, e]
      rw [hst]
      have : insStep s ins (.reloadShare j n t f) = ins := by simp [insStep, hj]
      rw [this]; exact ⟨wf, hl, hlim, hall⟩
  | base b =>
    cases b with
    | reload m =>
      have hst : (BloomShared.step s (.base (.reload m))).1 =
          { arrs := s.arrs ++ [m.bits], objs := s.objs ++ [(Hdr.mk s.arrs.length m.nHash m.tweak m.flags)],
            cur := some s.objs.length } := rfl
      rw [hst] at wf' ⊢
      refine ⟨wf', by simp [insStep, hl], ?_, ?_⟩
      · intro b hb
        rcases List.mem_append.1 hb with hb | hb
        · exact hlim b hb
        · have : b = m.bits := by simpa using hb
          subst this; exact hm m rfl
      · intro k hk x hx
        simp only [List.length_append, List.length_singleton] at hk
        by_cases ek : k < s.objs.length
        · have e1 : (s.objs ++ [(Hdr.mk s.arrs.length m.nHash m.tweak m.flags)])[k] = s.objs[k] := List.getElem_append_left ek
          have hak := wf.2 _ (List.getElem_mem ek)
          show matchesMsg (Shared.msgOf _ (s.objs ++ [(Hdr.mk s.arrs.length m.nHash m.tweak m.flags)])[k]) x = true
          rw [e1]
          rw [msgOf_append_arrs s _ _ _ _ hak]
          have hx' : x ∈ ins.getD k [] := by
            have : k < ins.length := hl ▸ ek
            simpa [insStep, List.getD_eq_getElem?_getD, List.getElem?_append_left this] using hx
          exact hall k ek x hx'
        · have : k = s.objs.length := by omega
          subst this
          simp [insStep, List.getD_eq_getElem?_getD, ← hl] at hx
    | unload => exact ⟨wf', hl, hlim, hall⟩
    | add d => exact insertCase _ d (.inl rfl) rfl
    | addHash d => exact insertCase _ d (.inr (.inl rfl)) rfl
    | addOutPoint hh i => exact insertCase _ _ (.inr (.inr ⟨hh, i, rfl, rfl⟩)) rfl
    | query d => rw [step_readonly_eq s wf _ (.inl ⟨d, rfl⟩)]; exact ⟨wf, hl, hlim, hall⟩
    | queryOutPoint d i => rw [step_readonly_eq s wf _ (.inr (.inl ⟨d, i, rfl⟩))]; exact ⟨wf, hl, hlim, hall⟩
    | isLoaded => rw [step_readonly_eq s wf _ (.inr (.inr rfl))]; exact ⟨wf, hl, hlim, hall⟩

/-- **no false negatives over every history, with shared bit arrays.**  Start from any well-formed state (objects may
    already share arrays) with arrays within the wire limit; after ANY sequence of insertions, queries, `Reload`s of
    new messages, of new messages that share an existing array, of earlier objects, `Unload` and `IsLoaded`, every
    object matches every item that was inserted while it was the loaded one. -/
theorem C09_shared_no_false_negatives (s : State) (ops : List BloomShared.Op) (h0 : WF s)
    (hlim : ∀ b ∈ s.arrs, b.length ≤ 36000)
    (hops : ∀ m, BloomShared.Op.base (.reload m) ∈ ops → m.bits.length ≤ 36000) :
    let r := BloomShared.run s (s.objs.map fun _ => []) ops
    ∀ k (hk : k < r.1.objs.length), ∀ x ∈ r.2.getD k [], matchesMsg (Shared.msgOf r.1 r.1.objs[k]) x = true := by
  have key : ∀ (ops : List BloomShared.Op) (s : State) (ins : List (List Bytes)), Shared.Inv s ins →
      (∀ m, BloomShared.Op.base (.reload m) ∈ ops → m.bits.length ≤ 36000) →
      Shared.Inv (BloomShared.run s ins ops).1 (BloomShared.run s ins ops).2 := by
    intro ops
    induction ops with
    | nil => intro s ins h _; exact h
    | cons op rest ih =>
      intro s ins h hm
      simp only [BloomShared.run]
      exact ih _ _ (C09_shared_inv_step s ins op h (fun m e => hm m (e ▸ List.mem_cons_self ..)))
        (fun m hmem => hm m (List.mem_cons_of_mem _ hmem))
  have h1 : Shared.Inv s (s.objs.map fun _ => []) := by
    refine ⟨h0, by simp, hlim, fun k hk x hx => ?_⟩
    simp [List.getD_eq_getElem?_getD, List.getElem?_map, List.getElem?_eq_getElem hk] at hx
  intro r k hk x hx
  exact (key ops s _ h1 hops).2.2.2 k hk x hx

-- non-vacuity and the aliasing itself: object 1 shares object 0's array; an insertion through object 1 is visible
-- through object 0 (the frame of `C09_shared_frame` is tight), and object 0 still reports what was inserted through it
example :
    let s0 : State := ⟨[[0, 0]], [⟨0, 3, 5, 0⟩], some 0⟩
    let ops : List BloomShared.Op := [.base (.add [1, 2, 3]), .reloadShare 0 2 9 0, .base (.add [7]), .reloadObj 0]
    let r := BloomShared.run s0 [[]] ops
    WF s0 ∧ r.2 = [[[1, 2, 3]], [[7]]] ∧ r.1.objs = [⟨0, 3, 5, 0⟩, ⟨0, 2, 9, 0⟩] ∧ r.1.arrs.length = 1 ∧
    (BloomShared.step r.1 (.base (.query [1, 2, 3]))).2 = some true ∧
    r.1.arrs ≠ (BloomShared.run s0 [[]] (ops.take 2)).1.arrs := by
  refine ⟨⟨?_, ?_⟩, ?_⟩
  · intro k hk; cases hk; decide
  · intro h hm; simp at hm; subst hm; decide
  · decide

end Bch.Props.C09
