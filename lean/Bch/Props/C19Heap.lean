import Bch.Proofs.CoinSetHeap
import Bch.Props.C19
import Bch.Props.C19AnySort
/-
C19, the memory clause: WHICH MEMORY the four coin selectors and the `CoinSet` object read and write.

Heap-level model: `Bch.Model.CoinSetHeap` (`/repo/coinset/coins.go` transcribed with coin *pointers*, `[]Coin` backing
arrays with slice headers, `CoinSet` objects by pointer).  Assumptions, all stated in the model file: the caller's
`Coin` methods `Value()` / `ValueAge()` only read; `sort.Sort` touches its data only through `Len` / `Less` / `Swap`
(an in-place sort is an ARBITRARY list of swaps chosen by an oracle `sched` that sees the whole heap); `container/list`
nodes are private to their `CoinSet`; `append` stores in place when the capacity allows and otherwise allocates with an
arbitrary growth policy `g`.

Vocabulary (`Bch.Proofs.CoinSetHeap`):
* `readPtrs h s` — the coin pointers `s[0:len(s)]`; `readCoins h s` — the coin values behind them; `setAt h cs` — the
  set object (its list of pointers and two totals); `readSet h cs` — the value-level `CS` it denotes.
* `InRangeOK sched` — every schedule on a valid slice swaps positions `< len` only (the contract of `sort.Sort`).
* `Implements sched k srt` — on every valid slice of every heap the oracle's swaps for comparator `k` are in range and
  rearrange the offered coins into `srt (offered coins)`.
* `SubMultiset a b` — `a` is a sublist of a permutation of `b` (each element used at most as often as it occurs in `b`).
* `OpFrame cs h h'` — `h'` differs from `h` at most in the set object `cs`.
-/
namespace Bch.Props.C19
open Bch Bch.Model.CoinSet Bch.Model.CoinSetHeap Bch.Proofs.CoinSetHeap Bch.Proofs.CoinSet Bch.Proofs.CoinSetAnySort
open Bch.Model.TxSortHeap (Slice InRange)

/-- the four `CoinSelect` methods as functions of the heap and the offered slice
    (`mi` = MaxInputs, `mc` = MinChangeAmount, `ma` = MinAvgValueAgePerInput, `t` = targetValue) -/
def heapSelectors (g : Nat → Nat) (sched : Sched) (fuel : Nat) (mi mc ma t : Int) : List (Heap → Slice → Res) :=
  [minIndexH mi mc t, minNumberH g sched mi mc t, maxValueAgeH g sched mi mc t,
   minPriorityH g sched fuel mi mc ma t]

private theorem heapSelectors_selOK (g : Nat → Nat) (sched : Sched) (fuel : Nat) (mi mc ma t : Int) (h : Heap)
    (s : Slice) : ∀ sel ∈ heapSelectors g sched fuel mi mc ma t, SelOK sched h s (sel h s) := by
  intro sel hsel
  simp only [heapSelectors, List.mem_cons, List.not_mem_nil, or_false] at hsel
  rcases hsel with rfl | rfl | rfl | rfl
  · exact minIndexH_selOK sched mi mc t h s
  · exact sortedSelectH_selOK _ g sched mi mc t h s
  · exact sortedSelectH_selOK _ g sched mi mc t h s
  · exact minPriorityH_ok g sched fuel mi mc ma t h s

/-! ### 1. the selectors write no memory that existed before the call -/

/-- **`CoinSelect` leaves the offered list untouched.**  For each of the four selectors, every heap, every offered
    slice header (any offset, length, capacity — a window of a larger array, spare capacity behind it, even a header that
    is not valid), every growth policy of `append`, EVERY swap schedule of `sort.Sort` (no assumption on it at all), every
    recursion budget and all selector parameters, whatever the call returns: every coin object is unchanged and none is
    created; every backing array that existed before the call — so the caller's array in full: window, the cells
    before it, the spare capacity — is unchanged; every `CoinSet` object that existed before is unchanged.  (The heap
    afterwards is the old heap plus objects allocated by the call.) -/
theorem C19_selectors_leave_offered_list_untouched (g : Nat → Nat) (sched : Sched) (fuel : Nat)
    (mi mc ma t : Int) (h : Heap) (s : Slice) :
    ∀ sel ∈ heapSelectors g sched fuel mi mc ma t,
      (sel h s).1.coins = h.coins ∧
      (sel h s).1.arrs.take h.arrs.length = h.arrs ∧
      (sel h s).1.sets.take h.sets.length = h.sets :=
  fun sel hsel => (heapSelectors_selOK g sched fuel mi mc ma t h s sel hsel).ext.take

/-- the same, as seen through any slice header and any `*CoinSet` the caller holds: every slice of an array that
    existed before the call (the offered one, other windows of its array, anything else) still holds the same pointers
    to coins with the same values, and every coin set that existed before denotes the same contents and totals -/
theorem C19_selectors_old_views_unchanged (g : Nat → Nat) (sched : Sched) (fuel : Nat)
    (mi mc ma t : Int) (h : Heap) (s : Slice) :
    ∀ sel ∈ heapSelectors g sched fuel mi mc ma t,
      (∀ s' : Slice, s'.arr < h.arrs.length →
        (sel h s).1.arrs.getD s'.arr [] = h.arrs.getD s'.arr [] ∧
        readPtrs (sel h s).1 s' = readPtrs h s' ∧ readCoins (sel h s).1 s' = readCoins h s') ∧
      (∀ c, c < h.sets.length → setAt (sel h s).1 c = setAt h c ∧ readSet (sel h s).1 c = readSet h c) ∧
      (∀ p, coinAt (sel h s).1 p = coinAt h p) := by
  intro sel hsel
  have e := (heapSelectors_selOK g sched fuel mi mc ma t h s sel hsel).ext
  exact ⟨fun s' hs' => ⟨e.arrD hs', e.readPtrs_eq hs', e.readCoins_eq hs'⟩,
    fun c hc => ⟨e.setAt_eq hc, e.readSet_eq hc⟩, e.coinAt_eq⟩

/-! ### 2. the selection is a new object holding the caller's coin pointers -/

/-- **the returned coin set is fresh, its elements are the caller's coin objects.**  For each selector, if it returns
    the set `cs`:
    (i)   `cs` is a `CoinSet` object allocated by the call (its pointer is beyond the old store), so it is not a set
          the caller held before — in particular not the result of an earlier selection;
    (ii)  `cs.Coins()` allocates a new array (its id is the length of the array store: not the offered array, not an
          array handed out earlier), returns the header `(new, 0, n, n)` — no spare capacity — holding exactly the
          set's list, and writes nothing else;
    (iii) if `sort.Sort` keeps its `Swap` calls in range, the list consists of pointers taken from the offered window,
          each at most as often as the window holds it (`SubMultiset`): the elements are the caller's coin objects
          themselves, none is duplicated beyond the offer, none comes from outside the window (not from the cells before
          it, not from the spare capacity). -/
theorem C19_selection_is_fresh (g : Nat → Nat) (sched : Sched) (fuel : Nat) (mi mc ma t : Int) (h : Heap)
    (s : Slice) :
    ∀ sel ∈ heapSelectors g sched fuel mi mc ma t, ∀ cs, (sel h s).2 = some cs →
      (h.sets.length ≤ cs ∧ cs < (sel h s).1.sets.length) ∧
      ((coinsOf (sel h s).1 cs).2 =
          ⟨(sel h s).1.arrs.length, 0, (setAt (sel h s).1 cs).list.length, (setAt (sel h s).1 cs).list.length⟩ ∧
        h.arrs.length ≤ (coinsOf (sel h s).1 cs).2.arr ∧
        readPtrs (coinsOf (sel h s).1 cs).1 (coinsOf (sel h s).1 cs).2 = (setAt (sel h s).1 cs).list ∧
        (coinsOf (sel h s).1 cs).1.arrs = (sel h s).1.arrs ++ [(setAt (sel h s).1 cs).list] ∧
        (coinsOf (sel h s).1 cs).1.sets = (sel h s).1.sets ∧ (coinsOf (sel h s).1 cs).1.coins = (sel h s).1.coins) ∧
      (InRangeOK sched →
        SubMultiset (setAt (sel h s).1 cs).list (readPtrs h s) ∧
        (∀ p ∈ (setAt (sel h s).1 cs).list, p ∈ readPtrs h s) ∧
        (∀ p, (setAt (sel h s).1 cs).list.count p ≤ (readPtrs h s).count p)) := by
  intro sel hsel cs hcs
  have ok := heapSelectors_selOK g sched fuel mi mc ma t h s sel hsel
  refine ⟨ok.fresh cs hcs, ⟨rfl, ok.ext.alen, coinsOf_readPtrs _ _, rfl, rfl, rfl⟩, fun hin => ?_⟩
  have := ok.mem hin cs hcs
  exact ⟨this, this.subset, this.count_le⟩

/-- **two selections never share memory.**  Run any selector, then (on the resulting heap, with any offered slice and
    any parameters) any selector again: the second set is a different object from the first, and the first set is
    exactly as the first call left it.  (The arrays their `Coins()` return are allocated one per call:
    `C19_coinset_ops_frame`.) -/
theorem C19_successive_selections_disjoint (g : Nat → Nat) (sched : Sched) (fuel fuel' : Nat)
    (mi mc ma t mi' mc' ma' t' : Int) (h : Heap) (s s' : Slice) :
    ∀ sel ∈ heapSelectors g sched fuel mi mc ma t, ∀ sel' ∈ heapSelectors g sched fuel' mi' mc' ma' t',
      ∀ a b, (sel h s).2 = some a → (sel' (sel h s).1 s').2 = some b →
        a ≠ b ∧ setAt (sel' (sel h s).1 s').1 a = setAt (sel h s).1 a := by
  intro sel hsel sel' hsel' a b ha hb
  have ok := heapSelectors_selOK g sched fuel mi mc ma t h s sel hsel
  have ok' := heapSelectors_selOK g sched fuel' mi' mc' ma' t' (sel h s).1 s' sel' hsel'
  have f1 := ok.fresh a ha
  have f2 := ok'.fresh b hb
  exact ⟨by omega, ok'.ext.setAt_eq f1.2⟩

/-! ### 3. the heap run computes the value-level model -/

/-- **the heap result denotes the value-level model's selection, for every sort.**  Let the oracle's schedules implement
    list functions `srtV`, `srtVAd`, `srtVAa` for the three comparators (in-range swaps that rearrange the offered coins
    into `srt (offer)` — any deterministic `sort.Sort`).  Then for every heap, offered slice, growth policy, recursion
    budget and parameters, each selector returns a set iff the value-level selector (`Model.CoinSet`, with the sorts
    as parameters: `Proofs.CoinSetAnySort`) returns one on the offered coin values, and the set it returns denotes
    (`readSet`: contents in order, both cached totals) exactly the model's `CS`.  All theorems of `Props/C19.lean` and
    `Props/C19AnySort.lean` therefore speak about what the Go code leaves on the heap. -/
theorem C19_heap_refines_value_model (g : Nat → Nat) (sched : Sched) (srtV srtVAd srtVAa : List Coin → List Coin)
    (hV : Implements sched .valueDesc srtV) (hVAd : Implements sched .valueAgeDesc srtVAd)
    (hVAa : Implements sched .valueAgeAsc srtVAa) (fuel : Nat) (mi mc ma t : Int) (h : Heap) (s : Slice) :
    (minIndexH mi mc t h s).2.map (readSet (minIndexH mi mc t h s).1) = minIndex mi mc t (readCoins h s) ∧
    (minNumberH g sched mi mc t h s).2.map (readSet (minNumberH g sched mi mc t h s).1) =
      minNumberWith srtV mi mc t (readCoins h s) ∧
    (maxValueAgeH g sched mi mc t h s).2.map (readSet (maxValueAgeH g sched mi mc t h s).1) =
      maxValueAgeWith srtVAd mi mc t (readCoins h s) ∧
    (minPriorityH g sched fuel mi mc ma t h s).2.map (readSet (minPriorityH g sched fuel mi mc ma t h s).1) =
      minPriorityWith srtVAa srtV fuel mi mc ma t (readCoins h s) :=
  ⟨minIndexH_ref mi mc t h s, sortedSelectH_ref _ g sched srtV hV mi mc t h s,
   sortedSelectH_ref _ g sched srtVAd hVAd mi mc t h s,
   minPriorityH_ref g sched srtVAa srtV hVAa hV fuel mi mc ma t h s⟩

/-- **… and with Go's insertion sort (what `sort.Sort` runs for at most 12 elements) it is the model itself**:
    `goSched` computes the insertion-sort swaps from the heap; the heap results denote `minIndex`, `minNumber`,
    `maxValueAge`, `minPriority fuel` of `Model/CoinSet.lean` on the offered coin values. -/
theorem C19_heap_refines_model_sort (g : Nat → Nat) (fuel : Nat) (mi mc ma t : Int) (h : Heap) (s : Slice) :
    (minIndexH mi mc t h s).2.map (readSet (minIndexH mi mc t h s).1) = minIndex mi mc t (readCoins h s) ∧
    (minNumberH g goSched mi mc t h s).2.map (readSet (minNumberH g goSched mi mc t h s).1) =
      minNumber mi mc t (readCoins h s) ∧
    (maxValueAgeH g goSched mi mc t h s).2.map (readSet (maxValueAgeH g goSched mi mc t h s).1) =
      maxValueAge mi mc t (readCoins h s) ∧
    (minPriorityH g goSched fuel mi mc ma t h s).2.map (readSet (minPriorityH g goSched fuel mi mc ma t h s).1) =
      minPriority fuel mi mc ma t (readCoins h s) := by
  have := C19_heap_refines_value_model g goSched _ _ _ goSched_valueDesc goSched_valueAgeDesc goSched_valueAgeAsc
    fuel mi mc ma t h s
  rw [minPriorityWith_model] at this
  exact this

/-- the hypotheses of the two theorems above are satisfiable: the insertion-sort oracle implements the model's three
    sorts and keeps its swaps in range -/
theorem C19_goSched_implements :
    Implements goSched .valueDesc sortByValueDesc ∧ Implements goSched .valueAgeDesc sortByValueAgeDesc ∧
    Implements goSched .valueAgeAsc sortByValueAgeAsc ∧ InRangeOK goSched :=
  ⟨goSched_valueDesc, goSched_valueAgeDesc, goSched_valueAgeAsc,
   Implements.inRange goSched_valueDesc goSched_valueAgeDesc goSched_valueAgeAsc⟩

/-- an oracle that implements list functions keeps its swaps in range (so (iii) of `C19_selection_is_fresh` applies) -/
theorem C19_implements_inRange (sched : Sched) (srtV srtVAd srtVAa : List Coin → List Coin)
    (hV : Implements sched .valueDesc srtV) (hVAd : Implements sched .valueAgeDesc srtVAd)
    (hVAa : Implements sched .valueAgeAsc srtVAa) : InRangeOK sched := Implements.inRange hV hVAd hVAa

/-- **the recursion budget is a proof device only**: any two budgets above the length of the offered slice give the
    same run — the same final heap and the same result (the recursive call works on `possibleCoins[0:cutoffIndex]`,
    strictly shorter).  So `minPriorityH g sched (s.len + 1)` is the Go function. -/
theorem C19_heap_fuel_irrelevant (g : Nat → Nat) (sched : Sched) (f1 f2 : Nat) (mi mc ma t : Int) (h : Heap)
    (s : Slice) (h1 : s.len < f1) (h2 : s.len < f2) :
    minPriorityH g sched f1 mi mc ma t h s = minPriorityH g sched f2 mi mc ma t h s :=
  minPriorityH_fuel g sched s.len f1 f2 h1 h2 mi mc ma t h s (Nat.le_refl _)

/-! ### 4. the operations of one `CoinSet` -/

/-- **`PushCoin`, `PopCoin`, `ShiftCoin`, `Coins()` write nothing outside the set's own list (and totals).**
    For every heap, every set object `cs` of it and every coin pointer `p`:
    * after `PushCoin(p)`, `PopCoin()`, `ShiftCoin()` the coin objects, ALL backing arrays, the number of set objects
      and every other set object are as before (`OpFrame`);
    * `Coins()` changes no object at all: it allocates one array holding the list and returns `(new, 0, n, n)`;
      calling it again returns another new array with the same contents — a fresh slice each time, never a view of
      the set's internals (the list is not an array);
    * `PushCoin(p)` appends `p` to the list and adds the coin's value and value-age whether or not `p` is already in
      the list: pushing the same coin object twice yields a list holding it twice — pointer equality plays no role. -/
theorem C19_coinset_ops_frame (h : Heap) (cs p : Nat) (hcs : cs < h.sets.length) :
    (OpFrame cs h (pushCoin h cs p) ∧ OpFrame cs h (popCoin h cs).1 ∧ OpFrame cs h (shiftCoin h cs).1) ∧
    ((coinsOf h cs).1 = { h with arrs := h.arrs ++ [(setAt h cs).list] } ∧
      (coinsOf h cs).2 = ⟨h.arrs.length, 0, (setAt h cs).list.length, (setAt h cs).list.length⟩ ∧
      readPtrs (coinsOf h cs).1 (coinsOf h cs).2 = (setAt h cs).list ∧
      (coinsOf (coinsOf h cs).1 cs).2.arr = (coinsOf h cs).2.arr + 1 ∧
      readPtrs (coinsOf (coinsOf h cs).1 cs).1 (coinsOf (coinsOf h cs).1 cs).2 = (setAt h cs).list) ∧
    (setAt (pushCoin h cs p) cs = ⟨(setAt h cs).list ++ [p], (setAt h cs).totalValue + (coinAt h p).value,
        (setAt h cs).totalValueAge + (coinAt h p).valueAge⟩ ∧
      (setAt (pushCoin (pushCoin h cs p) cs p) cs).list = (setAt h cs).list ++ [p, p] ∧
      (setAt (pushCoin (pushCoin h cs p) cs p) cs).totalValue =
        (setAt h cs).totalValue + (coinAt h p).value + (coinAt h p).value) := by
  have h1 := pushCoin_setAt h cs p hcs
  have h2 := pushCoin_setAt (pushCoin h cs p) cs p (by rw [pushCoin_sets_length]; exact hcs)
  refine ⟨⟨pushCoin_opFrame h cs p, popCoin_opFrame h cs, shiftCoin_opFrame h cs⟩,
    ⟨rfl, rfl, coinsOf_readPtrs h cs, ?_, coinsOf_readPtrs _ cs⟩, h1, ?_, ?_⟩
  · simp [coinsOf]
  · rw [h2, h1]; simp
  · rw [h2, h1]; rfl

/-- what `PopCoin` / `ShiftCoin` do to the list: the last / first pointer is removed and returned; on the empty set
    `nil` is returned and nothing is written at all -/
theorem C19_coinset_pop_shift (h : Heap) (cs : Nat) (hcs : cs < h.sets.length) :
    (∀ l p, (setAt h cs).list = l ++ [p] →
      (popCoin h cs).2 = some p ∧ (setAt (popCoin h cs).1 cs).list = l) ∧
    (∀ l p, (setAt h cs).list = p :: l →
      (shiftCoin h cs).2 = some p ∧ (setAt (shiftCoin h cs).1 cs).list = l) ∧
    ((setAt h cs).list = [] → popCoin h cs = (h, none) ∧ shiftCoin h cs = (h, none)) := by
  refine ⟨fun l p hl => ?_, fun l p hl => ?_, fun hl => ⟨popCoin_nil h cs hl, shiftCoin_nil h cs hl⟩⟩
  · obtain ⟨a, b⟩ := popCoin_snoc h cs hcs l p hl; exact ⟨a, by rw [b]⟩
  · obtain ⟨a, b⟩ := shiftCoin_cons h cs hcs l p hl; exact ⟨a, by rw [b]⟩

/-- **the set operations are the value-level operations** of `Model/CoinSet.lean` on what the set denotes: so the
    history theorems `C19_totals`, `C19_tx_spends_contents` (any sequence of pushes, pops, shifts) hold of the heap
    object, and `Coins()` hands out the denoted contents -/
theorem C19_coinset_ops_refine (h : Heap) (cs p : Nat) (hcs : cs < h.sets.length) :
    readSet (pushCoin h cs p) cs = (readSet h cs).push (coinAt h p) ∧
    (readSet (popCoin h cs).1 cs = (readSet h cs).pop.1 ∧ (popCoin h cs).2.map (coinAt h) = (readSet h cs).pop.2) ∧
    (readSet (shiftCoin h cs).1 cs = (readSet h cs).shift.1 ∧
      (shiftCoin h cs).2.map (coinAt h) = (readSet h cs).shift.2) ∧
    readCoins (coinsOf h cs).1 (coinsOf h cs).2 = (readSet h cs).coins ∧
    (∀ s, readSet (newCoinSet h s).1 (newCoinSet h s).2 = CS.ofList (readCoins h s)) :=
  ⟨readSet_pushCoin h cs p hcs, readSet_popCoin h cs hcs, readSet_shiftCoin h cs hcs, readCoins_coinsOf h cs,
   fun s => readSet_newCoinSet h s⟩

/-! ### 5./6. non-vacuity and negative witnesses (kernel evaluation on concrete heaps) -/

/-- five caller coins (values 3, 4, 4, 4, 3; confirmations 2, 0, 3, 0, 3); one backing array of eight cells of which
    the offered slice `exOffer` is the window `[2, 7)` with one cell of spare capacity: two cells before the window, one
    behind the capacity; one coin set the caller already holds -/
def exHeap : Heap :=
  { coins := [⟨0, 3, 2⟩, ⟨1, 4, 0⟩, ⟨2, 4, 3⟩, ⟨3, 4, 0⟩, ⟨4, 3, 3⟩],
    arrs := [[4, 4, 0, 1, 2, 3, 4, 0]],
    sets := [⟨[1], 4, 0⟩] }
def exOffer : Slice := ⟨0, 2, 5, 6⟩

example : exOffer.ValidIn exHeap.arrs ∧ readPtrs exHeap exOffer = [0, 1, 2, 3, 4] :=
  ⟨by simp [Bch.Model.TxSortHeap.Slice.ValidIn, exOffer, exHeap], by decide⟩
example : InRange exOffer (goSched .valueDesc exHeap exOffer) ∧
    goSched .valueDesc exHeap exOffer = [(1, 0), (2, 1), (3, 2)] := by decide

-- all four selectors succeed on it, through every branch of the min-priority selector's top-up path
-- (the same offer as in `Props/C19.lean`), and return the new set object 1
example : (minIndexH 3 0 10 exHeap exOffer).2 = some 1 ∧
    (minNumberH (fun _ => 0) goSched 2 0 7 exHeap exOffer).2 = some 1 ∧
    (maxValueAgeH (fun _ => 0) goSched 3 0 10 exHeap exOffer).2 = some 1 := by decide
example : (minPriorityH (fun _ => 0) goSched 6 4 2 4 14 exHeap exOffer).2 = some 10 ∧
    setAt (minPriorityH (fun _ => 0) goSched 6 4 2 4 14 exHeap exOffer).1 10 = ⟨[0, 4, 2, 1], 14, 27⟩ ∧
    readSet (minPriorityH (fun _ => 0) goSched 6 4 2 4 14 exHeap exOffer).1 10 =
      ⟨[⟨0, 3, 2⟩, ⟨4, 3, 3⟩, ⟨2, 4, 3⟩, ⟨1, 4, 0⟩], 14, 27⟩ ∧
    minPriority 6 4 2 4 14 (readCoins exHeap exOffer) =
      some ⟨[⟨0, 3, 2⟩, ⟨4, 3, 3⟩, ⟨2, 4, 3⟩, ⟨1, 4, 0⟩], 14, 27⟩ := by decide
-- … the caller's array and set are as before, although the selector allocated 14 arrays and 12 sets
example : (minPriorityH (fun _ => 0) goSched 6 4 2 4 14 exHeap exOffer).1.arrs.take 1 = exHeap.arrs ∧
    (minPriorityH (fun _ => 0) goSched 6 4 2 4 14 exHeap exOffer).1.sets.take 1 = exHeap.sets ∧
    (minPriorityH (fun _ => 0) goSched 6 4 2 4 14 exHeap exOffer).1.arrs.length = 15 ∧
    (minPriorityH (fun _ => 0) goSched 6 4 2 4 14 exHeap exOffer).1.sets.length = 13 := by decide
-- the min-number selector sorted ITS copy (array 1), not the caller's array 0
example : (minNumberH (fun _ => 0) goSched 2 0 7 exHeap exOffer).1.arrs = [[4, 4, 0, 1, 2, 3, 4, 0], [1, 2, 3, 0, 4]] := by
  decide
example : (0 : Nat) < exHeap.sets.length := by decide

/-- **negative witness (a)**: `sortedCoins := append(coins[:0], coins...)` followed by the sort — `coins[:0]` keeps the
    caller's array and capacity, `append` stores in place, the sort then reorders the caller's list; for every growth
    policy.  `C19_selectors_leave_offered_list_untouched` fails for this variant, so it is not vacuous and the model can
    exhibit the defect. -/
example : ∀ g, readPtrs (sortedSelectAliasing .valueDesc g goSched 2 0 7 exHeap exOffer).1 exOffer = [1, 2, 3, 0, 4] ∧
    readPtrs exHeap exOffer = [0, 1, 2, 3, 4] ∧
    -- the selection itself is the same as the real selector's
    (sortedSelectAliasing .valueDesc g goSched 2 0 7 exHeap exOffer).2.map
        (readSet (sortedSelectAliasing .valueDesc g goSched 2 0 7 exHeap exOffer).1) =
      minNumber 2 0 7 (readCoins exHeap exOffer) := by
  intro g
  have e : sortedSelectAliasing .valueDesc g goSched 2 0 7 exHeap exOffer =
      sortedSelectAliasing .valueDesc (fun _ => 0) goSched 2 0 7 exHeap exOffer := by
    simp only [sortedSelectAliasing]
    rw [append_inplace g _ _ _ (by decide), append_inplace (fun _ => 0) _ _ _ (by decide)]
  rw [e]; decide

/-- **negative witness (b)**: a result built as `append(possibleCoins[cutoff:i+1], low...)` over a shared backing array
    (here the caller's): the slice expression keeps the capacity behind position `i`, so `append` stores the low coin
    in place and OVERWRITES the offered coin at position `i+1` (pointer 3 becomes pointer 0) — for every growth
    policy; when the window ends at the capacity (`i+1 = cap`) it allocates instead and nothing is overwritten, so the
    defect shows only on some inputs. -/
example : ∀ g, readPtrs (topUpAliasing g exHeap exOffer 1 2 [0]).1 exOffer = [0, 1, 2, 0, 4] ∧
    (topUpAliasing g exHeap exOffer 1 2 [0]).2 = ⟨0, 3, 3, 5⟩ ∧
    readPtrs (topUpAliasing g exHeap ⟨0, 2, 5, 5⟩ 1 4 [0]).1 exOffer = [0, 1, 2, 3, 4] :=
  fun _ => ⟨rfl, rfl, rfl⟩

/-- **negative witness (c)**: a `PushCoin` that treats a pointer-equal coin specially (skips it) gives a different
    list and different totals from the real one when the same coin object is pushed twice -/
example : (setAt (pushCoin (pushCoin exHeap 0 2) 0 2) 0) = ⟨[1, 2, 2], 12, 24⟩ ∧
    (setAt (pushCoinUnlessPresent (pushCoinUnlessPresent exHeap 0 2) 0 2) 0) = ⟨[1, 2], 8, 12⟩ := by decide

/-- the in-range hypothesis of clause (iii) of `C19_selection_is_fresh` is needed: if `sort.Sort` called `Swap` with an
    index beyond `Len()` (Go panics; the model's `Swap` reads a nil cell), the selection could hold a pointer that was
    never offered — here pointer 0, while the offer is `[1, 2]` -/
example : (setAt (minNumberH (fun _ => 0) (fun _ _ _ => [(0, 9)]) 1 0 3 ⟨exHeap.coins, [[1, 2]], []⟩ ⟨0, 0, 2, 2⟩).1 0).list
      = [0] ∧
    readPtrs ⟨exHeap.coins, [[1, 2]], []⟩ ⟨0, 0, 2, 2⟩ = [1, 2] ∧
    ¬ InRange ⟨0, 0, 2, 2⟩ [(0, 9)] := by decide

-- the remaining side conditions: an old slice header, a budget above the length of the offer
example : exOffer.arr < exHeap.arrs.length ∧ exOffer.len < 6 := by decide

-- `Coins()` twice: two different new arrays with the same contents; pop and shift on a one-element and an empty set
example : (coinsOf exHeap 0).2 = ⟨1, 0, 1, 1⟩ ∧ (coinsOf (coinsOf exHeap 0).1 0).2 = ⟨2, 0, 1, 1⟩ ∧
    (popCoin exHeap 0).2 = some 1 ∧ (shiftCoin (popCoin exHeap 0).1 0) = ((popCoin exHeap 0).1, none) := by decide

end Bch.Props.C19
