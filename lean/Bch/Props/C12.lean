import Bch.Proofs.Merkle
/-
C12 — merkle proof extraction is sound against malformed or malicious messages.
All theorems are about the model's own `traverse` / `extractMsg` (Bch/Model/Merkle.lean). `extractP` is the
parser-style twin (Bch/Proofs/Merkle.lean) that aborts at the first fault; `C12_traverse_eq_parser` ties it to
the Go-shaped cursor/latch traversal.
-/
namespace Bch.Props.C12
open Bch.Model.Merkle Bch.Proofs.Merkle

variable {H : Type} [DecidableEq H]

/-- **`traverse` = parser.** From the initial state, on any bit / hash streams and any node:
* if the parser succeeds, `traverse` returns the same node hash, the same matches, cursors pointing exactly at the
  parser's unconsumed suffixes, and `bad = false`;
* if the parser fails (out of bits, out of hashes, or an inner node with two equal children), `traverse` — which
  keeps going — ends with `bad = true`. -/
theorem C12_traverse_eq_parser (comb : H → H → H) (zero : H) (n : Nat) (bits : List Bool) (hashes : List H)
    (h pos : Nat) :
    (∀ r ms bs' hs', extractP comb n h pos bits hashes = .ok (r, ms, bs', hs') →
      traverse comb zero n bits.toArray hashes.toArray h pos {} =
        (r, { bitsUsed := bits.length - bs'.length, hashesUsed := hashes.length - hs'.length, bad := false,
              matchedHashes := ms.map Prod.snd, matchedItems := ms.map Prod.fst }) ∧
      bs'.length < bits.length ∧ hs'.length ≤ hashes.length ∧
      bs' = bits.drop (bits.length - bs'.length) ∧ hs' = hashes.drop (hashes.length - hs'.length)) ∧
    (∀ e, extractP comb n h pos bits hashes = .error e →
      (traverse comb zero n bits.toArray hashes.toArray h pos {}).2.bad = true) :=
  ⟨fun _ _ _ _ he => traverse_init_ok comb zero n bits hashes he,
   fun _ he => traverse_init_error comb zero n bits hashes he⟩

/-- the same from an arbitrary in-range cursor state (the form used inside the recursion): success advances the
cursors, appends the matches and leaves the latch as it was. -/
theorem C12_traverse_eq_parser_from (comb : H → H → H) (zero : H) (n : Nat) (bits : List Bool)
    (hashes : List H) (h pos : Nat) (st : Ext H) :
    (∀ r ms bs' hs',
      extractP comb n h pos (bits.drop st.bitsUsed) (hashes.drop st.hashesUsed) = .ok (r, ms, bs', hs') →
      ∃ bu hu, st.bitsUsed < bu ∧ bu ≤ bits.length ∧ st.hashesUsed ≤ hu ∧ hu ≤ hashes.length ∧
        bs' = bits.drop bu ∧ hs' = hashes.drop hu ∧
        traverse comb zero n bits.toArray hashes.toArray h pos st =
          (r, { bitsUsed := bu, hashesUsed := hu, bad := st.bad,
                matchedHashes := st.matchedHashes ++ ms.map Prod.snd,
                matchedItems := st.matchedItems ++ ms.map Prod.fst })) ∧
    (∀ e, extractP comb n h pos (bits.drop st.bitsUsed) (hashes.drop st.hashesUsed) = .error e →
      (traverse comb zero n bits.toArray hashes.toArray h pos st).2.bad = true) ∧
    (st.bad = true → (traverse comb zero n bits.toArray hashes.toArray h pos st).2.bad = true) :=
  ⟨fun r ms bs' hs' he => traverse_of_extractP_ok comb zero n bits hashes h pos st r ms bs' hs' he,
   fun e he => traverse_of_extractP_error comb zero n bits hashes h pos st e he,
   traverse_bad_mono comb zero n _ _ h pos st⟩

/-- `bad` is latched (from the initial state) iff the parser fails. -/
theorem C12_bad_iff (comb : H → H → H) (zero : H) (n : Nat) (bits : List Bool) (hashes : List H)
    (h pos : Nat) :
    (traverse comb zero n bits.toArray hashes.toArray h pos {}).2.bad = true ↔
      ∃ e, extractP comb n h pos bits hashes = .error e := by
  cases he : extractP comb n h pos bits hashes with
  | error e => exact ⟨fun _ => ⟨e, rfl⟩, fun _ => traverse_init_error comb zero n bits hashes he⟩
  | ok v =>
    obtain ⟨r, ms, bs', hs'⟩ := v
    have := (traverse_init_ok comb zero n bits hashes he).1
    rw [this]
    simp

/-- **Exact acceptance condition.** `extractMsg` returns root `r` iff the four sanity checks pass and the parser,
run on the unpacked flag bits and the hashes from the root node, succeeds with root `r`, consumes all hashes and
leaves fewer than 8 bits (no whole unused flag byte); the reported items / matches are then the parser's. -/
theorem C12_accept_iff (comb : H → H → H) (zero : H) (msg : Msg H) (r : H) :
    (extractMsg comb zero msg).root = some r ↔
      msg.numTx ≠ 0 ∧ msg.numTx ≤ maxTxnCount ∧ msg.hashes.length ≤ msg.numTx ∧
      msg.hashes.length ≤ 8 * msg.flags.length ∧
      ∃ ms bs', extractP comb msg.numTx (height msg.numTx) 0 (unpackFlags msg.flags) msg.hashes
          = .ok (r, ms, bs', []) ∧ bs'.length < 8 ∧
        (extractMsg comb zero msg).items = ms.map Prod.fst ∧
        (extractMsg comb zero msg).matches_ = ms.map Prod.snd ∧
        (extractMsg comb zero msg).bad = false := by
  constructor
  · intro hr
    obtain ⟨hpre, -, -, -, -⟩ := extractMsg_root_some comb zero msg hr
    obtain ⟨p1, p2, p3, p4⟩ := id hpre
    rw [unpackFlags_length] at p4
    refine ⟨p1, p2, p3, p4, ?_⟩
    cases he : extractP comb msg.numTx (height msg.numTx) 0 (unpackFlags msg.flags) msg.hashes with
    | error e =>
      have := (extractMsg_of_error comb zero msg hpre he).1
      rw [this] at hr; cases hr
    | ok v =>
      obtain ⟨r', ms, bs', hs'⟩ := v
      have hx := extractMsg_of_ok comb zero msg hpre he
      rw [hx] at hr ⊢
      dsimp only at hr ⊢
      split at hr
      · rename_i hc
        obtain ⟨c1, rfl⟩ := hc
        cases hr
        exact ⟨ms, bs', rfl, c1, rfl, rfl, rfl⟩
      · cases hr
  · rintro ⟨p1, p2, p3, p4, ms, bs', he, hlt, -⟩
    have hpre : PreOK msg := ⟨p1, p2, p3, by rw [unpackFlags_length]; exact p4⟩
    rw [extractMsg_of_ok comb zero msg hpre he]
    simp [hlt]

/-- **Soundness (headline).** If `extractMsg` returns a root `r`, then the reported positions and hashes are in
one-to-one correspondence, positions are strictly increasing and `< numTx`, and for each reported `(pos, x)` there
is an explicit merkle branch `br` of length `height numTx` with `foldBranch comb numTx pos x br = r`, where
`foldBranch` pairs a node with itself exactly where `width` says it has no right sibling. -/
theorem C12_sound (comb : H → H → H) (zero : H) (msg : Msg H) (r : H)
    (hr : (extractMsg comb zero msg).root = some r) :
    (extractMsg comb zero msg).items.length = (extractMsg comb zero msg).matches_.length ∧
    (extractMsg comb zero msg).items.Pairwise (· < ·) ∧
    (∀ p ∈ (extractMsg comb zero msg).items, p < msg.numTx) ∧
    (∀ px ∈ List.zip (extractMsg comb zero msg).items (extractMsg comb zero msg).matches_,
      ∃ br : List H, br.length = height msg.numTx ∧ foldBranch comb msg.numTx px.1 px.2 br = r) := by
  obtain ⟨p1, -, -, -, ms, bs', he, -, hi, hm, -⟩ := (C12_accept_iff comb zero msg r).1 hr
  have hw : 0 < width msg.numTx (height msg.numTx) := width_pos (by omega) _
  obtain ⟨s, pw⟩ := extractP_sound comb msg.numTx _ _ _ _ _ _ _ _ hw he
  rw [hi, hm]
  refine ⟨by simp, ?_, ?_, ?_⟩
  · rw [List.pairwise_map]; exact pw
  · intro p hp
    obtain ⟨⟨p', x⟩, hmem, rfl⟩ := List.mem_map.1 hp
    exact (s p' x hmem).2.1
  · intro px hpx
    have : px ∈ ms := by
      rw [List.zip_map_left, List.zip_map_right] at hpx
      obtain ⟨⟨a, b⟩, hab, rfl⟩ := List.mem_map.1 hpx
      obtain ⟨⟨a1, a2⟩, hab', hh⟩ := List.mem_map.1 hab
      have := List.of_mem_zip hab'
      simp only [Prod.map] at hh
      cases hh
      rcases a1 with ⟨u, v⟩
      have hz : ∀ (l : List (Nat × H)) q, q ∈ l.zip l → q.1 = q.2 := by
        intro l
        induction l with
        | nil => intro q hq; cases hq
        | cons c l ih =>
          intro q hq
          rw [List.zip_cons_cons, List.mem_cons] at hq
          rcases hq with rfl | hq
          · rfl
          · exact ih q hq
      have := hz ms _ hab'
      simp only at this
      subst this
      exact (List.of_mem_zip hab').1
    obtain ⟨-, -, br, hl, hf⟩ := s px.1 px.2 this
    exact ⟨br, hl, hf⟩

omit [DecidableEq H] in
/-- **`foldBranch` is the real merkle-branch evaluation**: for an honest tree over `leaves`, folding the branch of
sibling hashes of any real leaf `p` gives the merkle root `calcHash … (height n) 0` (so the witness in
`C12_sound` is a merkle proof in the usual sense, not an artefact of the definition). -/
theorem C12_foldBranch_honest (comb : H → H → H) (leaves : Nat → H) (n p : Nat)
    (h1 : 1 ≤ n) (h2 : n ≤ 2^33) (hp : p < n) :
    (honestBranch comb leaves n (height n) p).length = height n ∧
    foldBranch comb n p (leaves p) (honestBranch comb leaves n (height n) p) =
      calcHash comb leaves n (height n) 0 := by
  refine ⟨honestBranch_length comb leaves n _ p, ?_⟩
  rw [foldBranch_honest comb leaves n (height n) p hp]
  have := (width_le_one_iff n (height n)).1 (Nat.le_of_eq (width_height h1 h2))
  rw [Nat.div_eq_of_lt (by omega)]

/-! ### rejection rules: each implies `root = none` -/

/-- declared transaction count zero -/
theorem C12_rejects_numTx_zero (comb : H → H → H) (zero : H) (msg : Msg H) (h : msg.numTx = 0) :
    (extractMsg comb zero msg).root = none := by
  rw [extractMsg_of_not_pre comb zero msg (fun hp => hp.1 h)]

/-- declared transaction count above `maxTxnCount` -/
theorem C12_rejects_numTx_too_big (comb : H → H → H) (zero : H) (msg : Msg H)
    (h : msg.numTx > maxTxnCount) : (extractMsg comb zero msg).root = none := by
  rw [extractMsg_of_not_pre comb zero msg (fun hp => by have := hp.2.1; omega)]

/-- more hashes than transactions -/
theorem C12_rejects_too_many_hashes (comb : H → H → H) (zero : H) (msg : Msg H)
    (h : msg.hashes.length > msg.numTx) : (extractMsg comb zero msg).root = none := by
  rw [extractMsg_of_not_pre comb zero msg (fun hp => by have := hp.2.2.1; omega)]

/-- fewer flag bits (8 per flag byte) than hashes -/
theorem C12_rejects_fewer_bits_than_hashes (comb : H → H → H) (zero : H) (msg : Msg H)
    (h : 8 * msg.flags.length < msg.hashes.length) : (extractMsg comb zero msg).root = none := by
  rw [extractMsg_of_not_pre comb zero msg
    (fun hp => by have := hp.2.2.2; rw [unpackFlags_length] at this; omega)]

/-- the failure latch: whenever `traverse` ends with `bad = true` no root is returned -/
theorem C12_rejects_bad (comb : H → H → H) (zero : H) (msg : Msg H)
    (h : (traverse comb zero msg.numTx (unpackFlags msg.flags).toArray msg.hashes.toArray
            (height msg.numTx) 0 {}).2.bad = true) :
    (extractMsg comb zero msg).root = none := by
  cases hr : (extractMsg comb zero msg).root with
  | none => rfl
  | some r =>
    have := (extractMsg_root_some comb zero msg hr).2.1
    rw [h] at this; cases this

/-- any parser fault (first fault in depth-first order) is a rejection, and sets `BadTree` once the sanity checks
have passed -/
theorem C12_rejects_fault (comb : H → H → H) (zero : H) (msg : Msg H) (e : Fault)
    (h : extractP comb msg.numTx (height msg.numTx) 0 (unpackFlags msg.flags) msg.hashes = .error e) :
    (extractMsg comb zero msg).root = none ∧ (PreOK msg → (extractMsg comb zero msg).bad = true) :=
  ⟨C12_rejects_bad comb zero msg (traverse_init_error comb zero msg.numTx _ _ h),
   fun hp => (extractMsg_of_error comb zero msg hp h).2⟩

/-- running out of flag bits during the traversal -/
theorem C12_rejects_out_of_bits (comb : H → H → H) (zero : H) (msg : Msg H)
    (h : extractP comb msg.numTx (height msg.numTx) 0 (unpackFlags msg.flags) msg.hashes
          = .error .outOfBits) : (extractMsg comb zero msg).root = none :=
  (C12_rejects_fault comb zero msg _ h).1

/-- running out of hashes during the traversal -/
theorem C12_rejects_out_of_hashes (comb : H → H → H) (zero : H) (msg : Msg H)
    (h : extractP comb msg.numTx (height msg.numTx) 0 (unpackFlags msg.flags) msg.hashes
          = .error .outOfHashes) : (extractMsg comb zero msg).root = none :=
  (C12_rejects_fault comb zero msg _ h).1

/-- an inner node with two equal children (CVE-2012-2459) -/
theorem C12_rejects_equal_children (comb : H → H → H) (zero : H) (msg : Msg H)
    (h : extractP comb msg.numTx (height msg.numTx) 0 (unpackFlags msg.flags) msg.hashes
          = .error .equalChildren) : (extractMsg comb zero msg).root = none :=
  (C12_rejects_fault comb zero msg _ h).1

/-- a hash left over after the traversal -/
theorem C12_rejects_hash_left_over (comb : H → H → H) (zero : H) (msg : Msg H)
    (h : (traverse comb zero msg.numTx (unpackFlags msg.flags).toArray msg.hashes.toArray
            (height msg.numTx) 0 {}).2.hashesUsed ≠ msg.hashes.length) :
    (extractMsg comb zero msg).root = none := by
  cases hr : (extractMsg comb zero msg).root with
  | none => rfl
  | some r => exact absurd (extractMsg_root_some comb zero msg hr).2.2.2.1 h

/-- a whole unused flag byte (8 or more bits not consumed) -/
theorem C12_rejects_unused_flag_byte (comb : H → H → H) (zero : H) (msg : Msg H)
    (h : (traverse comb zero msg.numTx (unpackFlags msg.flags).toArray msg.hashes.toArray
            (height msg.numTx) 0 {}).2.bitsUsed + 8 ≤ 8 * msg.flags.length) :
    (extractMsg comb zero msg).root = none := by
  cases hr : (extractMsg comb zero msg).root with
  | none => rfl
  | some r =>
    have := (extractMsg_root_some comb zero msg hr).2.2.1
    rw [unpackFlags_length] at this
    omega

/-- parser-level forms of the two consumption rules: the parser succeeds but leaves a hash, or ≥ 8 bits -/
theorem C12_rejects_leftover_parser (comb : H → H → H) (zero : H) (msg : Msg H) (r : H)
    (ms : List (Nat × H)) (bs' : List Bool) (hs' : List H)
    (he : extractP comb msg.numTx (height msg.numTx) 0 (unpackFlags msg.flags) msg.hashes
          = .ok (r, ms, bs', hs'))
    (h : hs' ≠ [] ∨ 8 ≤ bs'.length) : (extractMsg comb zero msg).root = none := by
  by_cases hp : PreOK msg
  · rw [extractMsg_of_ok comb zero msg hp he]
    dsimp only
    rw [if_neg]
    rintro ⟨c1, c2⟩
    rcases h with h | h
    · exact h c2
    · omega
  · rw [extractMsg_of_not_pre comb zero msg hp]

/-! ### non-vacuity (`H := Nat`, `exComb a b = 1000*a + b`) -/

section Examples

/-- an accepted 3-leaf message: leaf 1 matched; bits 1,1,0,1,0 = 0x0B; hashes = leaf0, leaf1, node(1,1) -/
example : extractMsg exComb 0 ⟨3, [10, 11, 99], [0x0B]⟩ = ⟨some (exComb (exComb 10 11) 99), [11], [1], false⟩ := by
  have hp : PreOK (H := Nat) ⟨3, [10, 11, 99], [0x0B]⟩ := by unfold PreOK; decide
  rw [extractMsg_of_ok exComb 0 _ hp (r := exComb (exComb 10 11) 99) (ms := [(1, 11)])
    (bs' := [false, false, false]) (hs' := []) rfl]
  simp

/-- the hypothesis of `C12_sound` is satisfiable, and the branch for the reported (1, 11) is `[10, 99]` -/
example : (extractMsg exComb 0 ⟨3, [10, 11, 99], [0x0B]⟩).root = some (exComb (exComb 10 11) 99) ∧
    foldBranch exComb 3 1 11 [10, 99] = exComb (exComb 10 11) 99 := by
  refine ⟨?_, by decide⟩
  rw [C12_accept_iff]
  refine ⟨by decide, by decide, by decide, by decide, [(1, 11)], [false, false, false], rfl, by decide, ?_⟩
  have hp : PreOK (H := Nat) ⟨3, [10, 11, 99], [0x0B]⟩ := by unfold PreOK; decide
  rw [extractMsg_of_ok exComb 0 _ hp (r := exComb (exComb 10 11) 99) (ms := [(1, 11)])
    (bs' := [false, false, false]) (hs' := []) rfl]
  simp

/-- a rejected duplicate-children message (CVE-2012-2459 shape): 2 leaves, both matched, equal hashes; the
hypothesis of `C12_rejects_equal_children` holds for it -/
example : extractP exComb 2 (height 2) 0 (unpackFlags [0x07]) [5, 5] = .error .equalChildren ∧
    (extractMsg exComb 0 ⟨2, [5, 5], [0x07]⟩).root = none ∧
    (extractMsg exComb 0 ⟨2, [5, 5], [0x07]⟩).bad = true := by
  have he : extractP exComb 2 (height 2) 0 (unpackFlags [0x07]) [5, 5] = .error .equalChildren := rfl
  have hp : PreOK (H := Nat) ⟨2, [5, 5], [0x07]⟩ := by unfold PreOK; decide
  exact ⟨he, (C12_rejects_fault exComb 0 ⟨2, [5, 5], [0x07]⟩ _ he).1,
    (C12_rejects_fault exComb 0 ⟨2, [5, 5], [0x07]⟩ _ he).2 hp⟩

/-- the other faults are reachable too: out of bits (a 1-byte message cannot run out, so shown on a raw stream and
on an 11-leaf message), out of hashes -/
example : extractP exComb 3 (height 3) 0 [true, true] [10, 11, 99] = .error .outOfBits ∧
    extractP exComb 3 (height 3) 0 (unpackFlags [0x0B]) [10, 11] = .error .outOfHashes ∧
    extractP exComb 9 (height 9) 0 (unpackFlags [0xFF]) [1, 2, 3, 4, 5, 6, 7, 8, 9] = .error .outOfBits :=
  ⟨rfl, rfl, rfl⟩

/-- the consumption rules and sanity checks fire on concrete messages; a 1-leaf message is accepted -/
example :
    (extractMsg exComb 0 ⟨3, [10, 11, 99, 100], [0x0B]⟩).root = none ∧       -- more hashes than txs
    (extractMsg exComb 0 ⟨3, [10, 11, 99], [0x0B, 0x00]⟩).root = none ∧     -- a whole unused flag byte
    (extractMsg exComb 0 ⟨3, [10, 11, 99], [0x01]⟩).root = none ∧           -- a hash left over
    (extractMsg exComb 0 ⟨0, [], []⟩).root = none ∧
    (extractMsg exComb 0 ⟨maxTxnCount + 1, [7], [0x00]⟩).root = none ∧
    (extractMsg exComb 0 ⟨1, [7], [0x00]⟩).root = some 7 := by
  refine ⟨C12_rejects_too_many_hashes _ _ _ (by decide), ?_, ?_, C12_rejects_numTx_zero _ _ _ rfl,
    C12_rejects_numTx_too_big _ _ _ (by decide), ?_⟩
  · exact C12_rejects_leftover_parser exComb 0 ⟨3, [10, 11, 99], [0x0B, 0x00]⟩ _ [(1, 11)]
      (List.replicate 11 false) [] rfl (Or.inr (by decide))
  · exact C12_rejects_leftover_parser exComb 0 ⟨3, [10, 11, 99], [0x01]⟩ (exComb 10 11) []
      [false, false, false, false, false] [99] rfl (Or.inl (by decide))
  · have hp : PreOK (H := Nat) ⟨1, [7], [0x00]⟩ := by unfold PreOK; decide
    rw [extractMsg_of_ok exComb 0 _ hp (r := 7) (ms := []) (bs' := List.replicate 7 false) (hs' := []) rfl]
    simp

end Examples

/-! ### 9. The object: every call evaluates the message afresh (fix 35d217e) -/

/-- whatever cursor state earlier calls left in the object, `ExtractMatches` answers exactly as the one-shot
evaluation `extractMsg` of the message does: root, match list, positions and the bad flag -/
theorem C12_repeatable {H : Type} [DecidableEq H] (comb : H → H → H) (zero : H) (pb : PartialBlock H) :
    let (r, pb') := pb.ExtractMatches comb zero
    let e := extractMsg comb zero pb.msg
    r = e.root ∧ pb'.msg = pb.msg ∧
      (e.root.isSome → pb'.st.matchedHashes = e.matches_ ∧ pb'.st.matchedItems = e.items ∧ pb'.st.bad = e.bad) := by
  simp only [PartialBlock.ExtractMatches, extractFrom, extractMsg]
  repeat' split
  all_goals simp_all

/-- hence any number of calls returns the same root -/
theorem C12_repeat_twice {H : Type} [DecidableEq H] (comb : H → H → H) (zero : H) (pb : PartialBlock H) :
    ((pb.ExtractMatches comb zero).2.ExtractMatches comb zero).1 = (pb.ExtractMatches comb zero).1 := by
  have h1 := C12_repeatable comb zero pb
  have h2 := C12_repeatable comb zero (pb.ExtractMatches comb zero).2
  simp only at h1 h2
  rw [h2.1, h1.1, h1.2.1]

/-- negative witness (the code before the fix): on the rejected message (2 transactions, hashes [10, 11], flags 00)
the second call continued behind the first one and returned the unused hash 11 as the merkle root -/
example :
    let pb : PartialBlock Nat := { msg := ⟨2, [10, 11], [0x00]⟩ }
    (pb.ExtractMatchesNoReset Bch.Proofs.Merkle.exComb 0).1 = none ∧
    ((pb.ExtractMatchesNoReset Bch.Proofs.Merkle.exComb 0).2.ExtractMatchesNoReset Bch.Proofs.Merkle.exComb 0).1 = some 11 ∧
    ((pb.ExtractMatches Bch.Proofs.Merkle.exComb 0).2.ExtractMatches Bch.Proofs.Merkle.exComb 0).1 = none := by
  refine ⟨by rfl, by rfl, by rfl⟩

end Bch.Props.C12
