namespace Bch.Props.C12
theorem placeholder : True := trivial
end Bch.Props.C12
