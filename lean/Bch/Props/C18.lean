namespace Bch.Props.C18
theorem placeholder : True := trivial
end Bch.Props.C18
