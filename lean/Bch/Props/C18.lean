import Bch.Proofs.TxSort
/-
C18 — BIP69 sorting is a correct, non-destructive, idempotent permutation.

Model: `Bch.Model.TxSort` (`/repo/txsort/txsort.go`). A transaction is (inputs, outputs); every field of an
input other than (hash, index) is carried along in `tag`, so "same inputs and otherwise identical fields" is
`List.Perm` on whole `TxIn`/`TxOut` records. The specification orders are defined in `Bch.Proofs.TxSort`:

* `Spec.lexLt a b`      — byte-wise lexicographic, proper prefix smaller (∃ common prefix …)
* `Spec.inLt a b`       — (toNatBE hash.reverse, index) lexicographic   [hashes of one common length, e.g. 32]
* `Spec.inLtBytes a b`  — the same order phrased on bytes, valid for hashes of any lengths
* `Spec.outLt a b`      — (value, script) lexicographic, scripts by `Spec.lexLt`
* `Sorted less l`       — `l.Pairwise (fun a b => less b a = false)`
* `SortContract less srt` — `∀ l, (srt l).Perm l ∧ Sorted less (srt l)`: the contract of Go's `sort.Sort`

Non-destructiveness of `Sort` (deep copy) is a heap-frame statement outside this functional model; it is
covered by the differential harness (aliasing probe).
-/
namespace Bch.Props.C18
open Bch Bch.Bytes Bch.Model.TxSort Bch.Proofs.TxSort

/-! ### the byte comparator -/

/-- `bytes.Compare(a,b) < 0` is byte-wise lexicographic order in which a proper prefix is smaller -/
theorem bytesLt_iff (a b : Bytes) : bytesLt a b = true ↔ Spec.lexLt a b :=
  Bch.Proofs.TxSort.bytesLt_iff a b

/-- … and coincides with core Lean's lexicographic `<` on `List UInt8` -/
theorem bytesLt_iff_lt (a b : Bytes) : bytesLt a b = true ↔ a < b :=
  Bch.Proofs.TxSort.bytesLt_iff_lt a b

/-- `bytesLt` is a strict total order: irreflexive, transitive, total -/
theorem bytesLt_strictTotal :
    (∀ a, bytesLt a a = false) ∧
    (∀ a b c, bytesLt a b = true → bytesLt b c = true → bytesLt a c = true) ∧
    (∀ a b, a = b ∨ bytesLt a b = true ∨ bytesLt b a = true) :=
  ⟨bytesLt_irrefl, bytesLt_trans, bytesLt_total⟩

/-- on equal-length byte strings `bytesLt` is `<` of the big-endian numbers -/
theorem bytesLt_iff_toNatBE (a b : Bytes) (h : a.length = b.length) :
    bytesLt a b = true ↔ toNatBE a < toNatBE b :=
  Bch.Proofs.TxSort.bytesLt_iff_toNatBE a b h

example : ([1, 2] : Bytes).length = ([1, 3] : Bytes).length ∧ bytesLt [1, 2] [1, 3] = true ∧
    bytesLt [1] [1, 0] = true ∧ bytesLt [2] [1, 0] = false := by decide

/-! ### the two BIP69 comparators -/

/-- input comparator = (previous txid as a big-endian number, then output index), for 32-byte hashes -/
theorem lessIn_iff (a b : TxIn) (ha : a.hash.length = 32) (hb : b.hash.length = 32) :
    lessIn a b = true ↔
      toNatBE a.hash.reverse < toNatBE b.hash.reverse ∨
      (toNatBE a.hash.reverse = toNatBE b.hash.reverse ∧ a.index < b.index) :=
  Bch.Proofs.TxSort.lessIn_iff a b (ha.trans hb.symm)

/-- the same for any two hashes of one common length (`Spec.inLt` is the disjunction above) -/
theorem lessIn_iff_of_length_eq (a b : TxIn) (h : a.hash.length = b.hash.length) :
    lessIn a b = true ↔ Spec.inLt a b :=
  Bch.Proofs.TxSort.lessIn_iff a b h

/-- … as `Prod.Lex` on the key pair -/
theorem lessIn_iff_prodLex (a b : TxIn) (h : a.hash.length = b.hash.length) :
    lessIn a b = true ↔
      Prod.Lex (· < ·) (· < ·) (toNatBE a.hash.reverse, a.index) (toNatBE b.hash.reverse, b.index) := by
  rw [Bch.Proofs.TxSort.lessIn_iff a b h, Prod.lex_def]; rfl

/-- with no length assumption at all: reversed hash bytes lexicographically, then index -/
theorem lessIn_iff_bytes (a b : TxIn) :
    lessIn a b = true ↔
      Spec.lexLt a.hash.reverse b.hash.reverse ∨ (a.hash = b.hash ∧ a.index < b.index) :=
  Bch.Proofs.TxSort.lessIn_iff_bytes a b

example : ∃ a b : TxIn, a.hash.length = 32 ∧ b.hash.length = 32 ∧ lessIn a b = true ∧ a.hash ≠ b.hash :=
  ⟨⟨List.replicate 32 0, 5, 0⟩, ⟨List.replicate 31 0 ++ [1], 0, 0⟩, by decide⟩

/-- output comparator = (amount, then script bytes lexicographically) -/
theorem lessOut_iff (a b : TxOut) :
    lessOut a b = true ↔ a.value < b.value ∨ (a.value = b.value ∧ Spec.lexLt a.script b.script) :=
  Bch.Proofs.TxSort.lessOut_iff a b

theorem lessOut_iff_prodLex (a b : TxOut) :
    lessOut a b = true ↔ Prod.Lex (· < ·) Spec.lexLt (a.value, a.script) (b.value, b.script) := by
  rw [Bch.Proofs.TxSort.lessOut_iff a b, Prod.lex_def]; rfl

/-- both comparators are strict weak orders (`irrefl`, `trans`, `incomp_trans`) -/
theorem lessIn_strictWeak :
    (∀ a, lessIn a a = false) ∧
    (∀ a b c, lessIn a b = true → lessIn b c = true → lessIn a c = true) ∧
    (∀ a b c, lessIn a b = false → lessIn b a = false → lessIn b c = false → lessIn c b = false →
      lessIn a c = false ∧ lessIn c a = false) :=
  ⟨strictWeak_lessIn.irrefl, strictWeak_lessIn.trans, strictWeak_lessIn.incomp_trans⟩

theorem lessOut_strictWeak :
    (∀ a, lessOut a a = false) ∧
    (∀ a b c, lessOut a b = true → lessOut b c = true → lessOut a c = true) ∧
    (∀ a b c, lessOut a b = false → lessOut b a = false → lessOut b c = false → lessOut c b = false →
      lessOut a c = false ∧ lessOut c a = false) :=
  ⟨strictWeak_lessOut.irrefl, strictWeak_lessOut.trans, strictWeak_lessOut.incomp_trans⟩

/-- incomparable inputs are exactly those with equal (hash, index); incomparable outputs are equal -/
theorem lessIn_incomp_iff (a b : TxIn) :
    (lessIn a b = false ∧ lessIn b a = false) ↔ (a.hash = b.hash ∧ a.index = b.index) := by
  rw [keyOrder_lessIn.incomp_iff, inKey_eq_iff]

theorem lessOut_incomp_iff (a b : TxOut) : (lessOut a b = false ∧ lessOut b a = false) ↔ a = b := by
  rw [keyOrder_lessOut.incomp_iff, outKey_eq_iff]

/-! ### insertion sort (the model's `sort.Sort`) -/

theorem sortBy_perm {α : Type} (less : α → α → Bool) (l : List α) : (sortBy less l).Perm l :=
  Bch.Proofs.TxSort.sortBy_perm less l

/-- for a strict weak order the result passes `sort.IsSorted` and is pairwise non-decreasing -/
theorem sortBy_sorted {α : Type} (less : α → α → Bool) (h : StrictWeak less) (l : List α) :
    isSortedBy less (sortBy less l) = true ∧
    (sortBy less l).Pairwise (fun a b => ¬ less b a = true) := by
  refine ⟨Bch.Proofs.TxSort.sortBy_sorted h l, ?_⟩
  exact (sortBy_pairwise h l).imp (fun hba => by simp [hba])

/-- stability: for every `a`, the elements incomparable to `a` keep their relative order -/
theorem sortBy_stable {α : Type} (less : α → α → Bool) (h : StrictWeak less) (a : α) (l : List α) :
    (sortBy less l).filter (fun b => !less a b && !less b a) =
      l.filter (fun b => !less a b && !less b a) :=
  Bch.Proofs.TxSort.sortBy_stable h a l

-- the hypothesis `StrictWeak less` is satisfiable by the two comparators in question
example : StrictWeak lessIn ∧ StrictWeak lessOut := ⟨strictWeak_lessIn, strictWeak_lessOut⟩

/-! ### headline: `SortTx` -/

/-- a small transaction used in the non-vacuity examples -/
def exTx : Tx :=
  ⟨[⟨[0, 1], 0, 7⟩, ⟨[1, 0], 1, 8⟩, ⟨[1, 0], 0, 9⟩, ⟨[0, 1], 0, 10⟩],
   [⟨5, [1]⟩, ⟨5, []⟩, ⟨-1, [9, 9]⟩, ⟨5, [0, 200]⟩]⟩



/-- **C18_sort.** The sorted transaction has the same inputs and outputs (as multisets of whole records) and
    both lists are pairwise non-decreasing in the BIP69 keys. No assumption on the transaction; the input order
    is phrased on the reversed hash bytes (`Spec.inLtBytes`), which for equal-length hashes is the big-endian
    numeric order — see `C18_sort_be` . -/
theorem C18_sort (tx : Tx) :
    (SortTx tx).ins.Perm tx.ins ∧ (SortTx tx).outs.Perm tx.outs ∧
    (SortTx tx).ins.Pairwise (fun a b => ¬ Spec.inLtBytes b a) ∧
    (SortTx tx).outs.Pairwise (fun a b => ¬ Spec.outLt b a) :=
  ⟨Bch.Proofs.TxSort.sortBy_perm _ _, Bch.Proofs.TxSort.sortBy_perm _ _,
   (sorted_lessIn_iff_bytes _).1 (sortBy_pairwise strictWeak_lessIn _),
   (sorted_lessOut_iff _).1 (sortBy_pairwise strictWeak_lessOut _)⟩

/-- **C18_sort, numeric form.** If all input hashes have one length `n` (32 on the wire), the inputs of the sorted
    transaction are non-decreasing in (txid as big-endian number, index). -/
theorem C18_sort_be (tx : Tx) (n : Nat) (hn : ∀ i ∈ tx.ins, i.hash.length = n) :
    (SortTx tx).ins.Perm tx.ins ∧ (SortTx tx).outs.Perm tx.outs ∧
    (SortTx tx).ins.Pairwise (fun a b => ¬ Spec.inLt b a) ∧
    (SortTx tx).outs.Pairwise (fun a b => ¬ Spec.outLt b a) := by
  have hp : (SortTx tx).ins.Perm tx.ins := Bch.Proofs.TxSort.sortBy_perm _ _
  refine ⟨hp, (C18_sort tx).2.1, ?_, (C18_sort tx).2.2.2⟩
  exact (sorted_lessIn_iff _ n (fun i hi => hn i (hp.mem_iff.1 hi))).1
    (sortBy_pairwise strictWeak_lessIn _)

example : ∃ tx : Tx, tx.ins.length = 3 ∧ (∀ i ∈ tx.ins, i.hash.length = 2) ∧ SortTx tx ≠ tx :=
  ⟨⟨[⟨[0, 1], 0, 7⟩, ⟨[1, 0], 1, 8⟩, ⟨[1, 0], 0, 9⟩], []⟩, by decide⟩

/-- **C18_sort for an arbitrary correct `sort.Sort`.** The Go code calls `sort.Sort`, whose contract is
    `SortContract` (a permutation of its input that is sorted w.r.t. `Less`). For *every* pair of functions
    meeting the contract the result has the properties of `C18_sort`, its input list has the same (hash, index)
    sequence as the model's insertion sort, and its output list is *equal* to the model's. -/
theorem C18_sort_any (srtIn : List TxIn → List TxIn) (srtOut : List TxOut → List TxOut)
    (hIn : SortContract lessIn srtIn) (hOut : SortContract lessOut srtOut) (tx : Tx) :
    (srtIn tx.ins).Perm tx.ins ∧ (srtOut tx.outs).Perm tx.outs ∧
    (srtIn tx.ins).Pairwise (fun a b => ¬ Spec.inLtBytes b a) ∧
    (srtOut tx.outs).Pairwise (fun a b => ¬ Spec.outLt b a) ∧
    (srtIn tx.ins).map (fun i => (i.hash, i.index)) = (SortTx tx).ins.map (fun i => (i.hash, i.index)) ∧
    srtOut tx.outs = (SortTx tx).outs := by
  refine ⟨(hIn _).1, (hOut _).1, (sorted_lessIn_iff_bytes _).1 (hIn _).2,
    (sorted_lessOut_iff _).1 (hOut _).2, ?_, ?_⟩
  · have hk := sorted_perm_keys_eq keyOrder_lessIn
      ((hIn tx.ins).1.trans (Bch.Proofs.TxSort.sortBy_perm lessIn tx.ins).symm)
      (hIn tx.ins).2 (sortBy_pairwise strictWeak_lessIn tx.ins)
    have := congrArg (List.map (fun k : Bytes × Nat => (k.1.reverse, k.2))) hk
    simpa [inKey, SortTx, Function.comp_def] using this
  · exact sorted_perm_eq keyOrder_lessOut (fun a b => (outKey_eq_iff a b).1)
      ((hOut tx.outs).1.trans (Bch.Proofs.TxSort.sortBy_perm lessOut tx.outs).symm)
      (hOut tx.outs).2 (sortBy_pairwise strictWeak_lessOut tx.outs)

-- the contract is satisfiable: the model's insertion sort meets it
example : SortContract lessIn (sortBy lessIn) ∧ SortContract lessOut (sortBy lessOut) :=
  ⟨sortBy_contract strictWeak_lessIn, sortBy_contract strictWeak_lessOut⟩

/-- **Uniqueness of a sorted permutation up to equal keys**: two lists that are permutations of each other and
    both sorted have the same (hash, index) sequence (inputs) / are equal (outputs). -/
theorem C18_sort_unique_keys :
    (∀ l1 l2 : List TxIn, l1.Perm l2 → Sorted lessIn l1 → Sorted lessIn l2 →
      l1.map (fun i => (i.hash, i.index)) = l2.map (fun i => (i.hash, i.index))) ∧
    (∀ l1 l2 : List TxOut, l1.Perm l2 → Sorted lessOut l1 → Sorted lessOut l2 → l1 = l2) := by
  constructor
  · intro l1 l2 hp h1 h2
    have hk := sorted_perm_keys_eq keyOrder_lessIn hp h1 h2
    have := congrArg (List.map (fun k : Bytes × Nat => (k.1.reverse, k.2))) hk
    simpa [inKey, Function.comp_def] using this
  · intro l1 l2 hp h1 h2
    exact sorted_perm_eq keyOrder_lessOut (fun a b => (outKey_eq_iff a b).1) hp h1 h2

-- two different sorted permutations of each other (they differ only in the order of two inputs with equal keys)
example : ([⟨[1], 0, 7⟩, ⟨[1], 0, 8⟩] : List TxIn).Perm [⟨[1], 0, 8⟩, ⟨[1], 0, 7⟩] ∧
    isSortedBy lessIn [⟨[1], 0, 7⟩, ⟨[1], 0, 8⟩] = true ∧ isSortedBy lessIn [⟨[1], 0, 8⟩, ⟨[1], 0, 7⟩] = true ∧
    ([⟨[1], 0, 7⟩, ⟨[1], 0, 8⟩] : List TxIn) ≠ [⟨[1], 0, 8⟩, ⟨[1], 0, 7⟩] :=
  ⟨List.Perm.swap _ _ _, by decide, by decide, by decide⟩

/-- **C18_isSorted_iff.** `IsSorted` (Go's adjacent-pair check) is true exactly for transactions whose two lists
    are pairwise non-decreasing in the BIP69 keys. -/
theorem C18_isSorted_iff (tx : Tx) :
    IsSorted tx = true ↔
      tx.ins.Pairwise (fun a b => ¬ Spec.inLtBytes b a) ∧ tx.outs.Pairwise (fun a b => ¬ Spec.outLt b a) := by
  unfold IsSorted
  rw [Bool.and_eq_true, isSortedBy_iff strictWeak_lessIn, isSortedBy_iff strictWeak_lessOut,
    sorted_lessIn_iff_bytes, sorted_lessOut_iff]

/-- numeric form for hashes of one common length -/
theorem C18_isSorted_iff_be (tx : Tx) (n : Nat) (hn : ∀ i ∈ tx.ins, i.hash.length = n) :
    IsSorted tx = true ↔
      tx.ins.Pairwise (fun a b => ¬ Spec.inLt b a) ∧ tx.outs.Pairwise (fun a b => ¬ Spec.outLt b a) := by
  unfold IsSorted
  rw [Bool.and_eq_true, isSortedBy_iff strictWeak_lessIn, isSortedBy_iff strictWeak_lessOut,
    sorted_lessIn_iff _ n hn, sorted_lessOut_iff]

example : (∀ i ∈ exTx.ins, i.hash.length = 2) ∧ IsSorted exTx = false ∧ IsSorted (SortTx exTx) = true := by
  decide

/-- **C18_idempotent.** A sorted transaction passes `IsSorted`, sorting an already sorted transaction changes
    nothing, hence sorting twice is sorting once. -/
theorem C18_idempotent (tx : Tx) :
    IsSorted (SortTx tx) = true ∧ SortTx (SortTx tx) = SortTx tx ∧
    (IsSorted tx = true → SortTx tx = tx) := by
  have hfix : ∀ t : Tx, IsSorted t = true → SortTx t = t := by
    intro t ht
    unfold IsSorted at ht
    rw [Bool.and_eq_true, isSortedBy_iff strictWeak_lessIn, isSortedBy_iff strictWeak_lessOut] at ht
    cases t with
    | mk ins outs =>
      simp only [SortTx]
      rw [sortBy_of_sorted lessIn ins ht.1, sortBy_of_sorted lessOut outs ht.2]
  have hs : IsSorted (SortTx tx) = true := by
    unfold IsSorted SortTx
    rw [Bool.and_eq_true]
    exact ⟨Bch.Proofs.TxSort.sortBy_sorted strictWeak_lessIn _,
      Bch.Proofs.TxSort.sortBy_sorted strictWeak_lessOut _⟩
  exact ⟨hs, hfix _ hs, hfix tx⟩

/-- `IsSorted tx ↔ SortTx tx = tx` -/
theorem C18_isSorted_iff_fixed (tx : Tx) : IsSorted tx = true ↔ SortTx tx = tx :=
  ⟨(C18_idempotent tx).2.2, fun h => h ▸ (C18_idempotent tx).1⟩

/-- **C18_nondestructive / in place.** `Sort` leaves the caller's transaction as it was and returns the sorted copy;
    `InPlaceSort` leaves the caller with exactly that copy; doing either again changes nothing. (Which *arrays* the two
    functions write is outside this value-level model: the harness overwrites every byte of the returned copy and
    compares the caller's serialisation before and after, and compares both results by their full serialisation.) -/
theorem C18_nondestructive_inplace (tx : Tx) :
    (sortCopy tx).1 = tx ∧ (sortCopy tx).2 = SortTx tx ∧ InPlaceSort tx = (sortCopy tx).2 ∧
    InPlaceSort (InPlaceSort tx) = InPlaceSort tx ∧ IsSorted (InPlaceSort tx) = true :=
  ⟨rfl, rfl, rfl, (C18_idempotent tx).2.1, (C18_idempotent tx).1⟩

/-! ### non-vacuity: concrete transactions -/

-- last hash byte is most significant; ties keep their order (tags 7, 10); prefix scripts first; negative amounts first
example : SortTx exTx =
    ⟨[⟨[1, 0], 0, 9⟩, ⟨[1, 0], 1, 8⟩, ⟨[0, 1], 0, 7⟩, ⟨[0, 1], 0, 10⟩],
     [⟨-1, [9, 9]⟩, ⟨5, []⟩, ⟨5, [0, 200]⟩, ⟨5, [1]⟩]⟩ := by decide
example : IsSorted exTx = false ∧ IsSorted (SortTx exTx) = true := by decide
example : IsSorted ⟨[], []⟩ = true := by decide

end Bch.Props.C18
