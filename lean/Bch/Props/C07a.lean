import Bch.Proofs.Base58
/-
C07, Base58 / Base58Check half (bech32 half: `C07b.lean`, same namespace).

"Base58 encoding and decoding are mutually inverse bijections between byte strings and strings over
the Bitcoin alphabet (leading zero bytes correspond to leading '1' characters, any foreign character
yields the empty result), and Base58Check decoding returns exactly the version and payload that were
encoded and accepts a string only when its last four bytes equal the double-SHA256 prefix of the
rest."

All theorems are about the executable model `Bch.Model.Base58` (`Encode`, `Decode`, `CheckEncode`,
`CheckDecode`); the double SHA-256 is an arbitrary function `H`, every hypothesis on it is explicit.
Proofs are in `Bch/Proofs/Base58.lean`.
-/
namespace Bch.Props.C07
open Bch Bch.Model Bch.Model.Base58
open Bch.Proofs.Base58

/-! ### Base58: mutually inverse bijections -/

/-- Decoding an encoding gives back the bytes, for every byte string (any length, any number of
leading zero bytes). -/
theorem C07_b58_dec_enc : ∀ b : Bytes, Decode (Encode b) = b :=
  Decode_Encode

/-- Re-encoding a decoding gives back the string, for every string over the alphabet. -/
theorem C07_b58_enc_dec : ∀ s : Bytes, (∀ c ∈ s, (b58 c).isSome) → Encode (Decode s) = s :=
  Encode_Decode

/-- Strongest form: a string re-encodes to itself exactly when it is over the alphabet. -/
theorem C07_b58_enc_dec_iff : ∀ s : Bytes, Encode (Decode s) = s ↔ ∀ c ∈ s, (b58 c).isSome :=
  fun s => ⟨fun h => h ▸ Encode_alphabet (Decode s), Encode_Decode s⟩

/-- Any foreign byte anywhere in the string makes `Decode` return the empty result. -/
theorem C07_b58_foreign : ∀ s : Bytes, (∃ c ∈ s, b58 c = none) → Decode s = [] :=
  Decode_foreign

/-- The empty result arises only from the empty string or from a foreign byte. -/
theorem C07_b58_empty_iff : ∀ s : Bytes, Decode s = [] ↔ s = [] ∨ ∃ c ∈ s, b58 c = none := by
  intro s
  constructor
  · intro h
    by_cases hs : ∀ c ∈ s, (b58 c).isSome
    · left
      have := Encode_Decode s hs
      rw [h] at this
      rw [← this, Encode_eq]; simp [lead]
    · right
      simp only [not_forall] at hs
      obtain ⟨c, hc, hn⟩ := hs
      exact ⟨c, hc, by simpa using hn⟩
  · rintro (rfl | h)
    · simp [Decode, decodeNat, leadingOnes, ofNatMin_zero]
    · exact Decode_foreign s h

/-- The encoder only emits alphabet characters. -/
theorem C07_b58_alphabet : ∀ b : Bytes, ∀ c ∈ Encode b, (b58 c).isSome :=
  Encode_alphabet

/-- Leading zero bytes correspond to leading '1' characters: the number of leading `'1'` (49) of
`Encode b` is the number of leading `0x00` of `b`. -/
theorem C07_b58_leading : ∀ b : Bytes, leadingOnes (Encode b) = leadingZeros b :=
  leadingOnes_Encode

/-- … and in the other direction, for strings over the alphabet. -/
theorem C07_b58_leading_dec :
    ∀ s : Bytes, (∀ c ∈ s, (b58 c).isSome) → leadingZeros (Decode s) = leadingOnes s :=
  leadingZeros_Decode

/-- `leadingZeros` / `leadingOnes` really are the lengths of the maximal leading runs. -/
theorem C07_b58_leading_spec (l : Bytes) :
    (l = List.replicate (leadingZeros l) 0 ++ l.drop (leadingZeros l)
      ∧ (l.drop (leadingZeros l)).head? ≠ some 0) ∧
    (l = List.replicate (leadingOnes l) 49 ++ l.drop (leadingOnes l)
      ∧ (l.drop (leadingOnes l)).head? ≠ some 49) := by
  rw [leadingZeros_eq, leadingOnes_eq]
  exact ⟨⟨lead_split 0 l, head?_drop_lead 0 l⟩, ⟨lead_split 49 l, head?_drop_lead 49 l⟩⟩

/-- `Encode` is injective on all byte strings. -/
theorem C07_b58_injective_enc : ∀ a b : Bytes, Encode a = Encode b → a = b := by
  intro a b h
  rw [← Decode_Encode a, ← Decode_Encode b, h]

/-- `Decode` is injective on strings over the alphabet. -/
theorem C07_b58_injective_dec : ∀ s t : Bytes, (∀ c ∈ s, (b58 c).isSome) → (∀ c ∈ t, (b58 c).isSome) →
    Decode s = Decode t → s = t := by
  intro s t hs ht h
  rw [← Encode_Decode s hs, ← Encode_Decode t ht, h]

/-- Both maps are onto: every alphabet string is an encoding, every byte string a decoding of an
alphabet string. Together with the two injectivity statements: mutually inverse bijections. -/
theorem C07_b58_surjective :
    (∀ s : Bytes, (∀ c ∈ s, (b58 c).isSome) → ∃ b, Encode b = s) ∧
    (∀ b : Bytes, ∃ s, (∀ c ∈ s, (b58 c).isSome) ∧ Decode s = b) :=
  ⟨fun s hs => ⟨Decode s, Encode_Decode s hs⟩,
   fun b => ⟨Encode b, Encode_alphabet b, Decode_Encode b⟩⟩

/-! non-vacuity: concrete values, including leading zeros and a foreign byte ('0' = 48, 'l' = 108) -/
example : Encode [0, 0, 1] = [49, 49, 50] := by   -- "112"
  rw [Encode_eq]; simp [lead, Bytes.toNatBE, alphaAt, alphabet_eq, alphaList]
example : Encode [0xff, 0xff] = [76, 85, 118] := by   -- 65535 = 19*58² + 27*58 + 53 ↦ "LUv"
  rw [Encode_eq]; simp [lead, Bytes.toNatBE, alphaAt, alphabet_eq, alphaList]
example : Decode [49, 49, 50] = [0, 0, 1] := by
  have h : Encode [0, 0, 1] = [49, 49, 50] := by
    rw [Encode_eq]; simp [lead, Bytes.toNatBE, alphaAt, alphabet_eq, alphaList]
  rw [← h]; exact C07_b58_dec_enc _
example : ∀ c ∈ ([49, 49, 50] : Bytes), (b58 c).isSome := by
  simp [b58, alphabet_eq, alphaList]
example : b58 48 = none ∧ b58 108 = none ∧ Decode [50, 48, 50] = [] := by
  have h0 : b58 48 = none := by simp [b58, alphabet_eq, alphaList]
  refine ⟨h0, by simp [b58, alphabet_eq, alphaList], C07_b58_foreign _ ⟨48, by simp, h0⟩⟩

/-! ### Base58Check -/

/-- `CheckDecode (CheckEncode payload v) = (payload, v)` as soon as the hash of `v :: payload` has at
least 4 bytes (true for every input of a real double SHA-256, which has 32). -/
theorem C07_check_roundtrip : ∀ (H : Bytes → Bytes) (payload : Bytes) (v : UInt8),
    4 ≤ (H (v :: payload)).length →
    CheckDecode H (CheckEncode H payload v) = .ok (payload, v) :=
  CheckDecode_CheckEncode

/-- The length hypothesis is exactly what is needed: with a hash shorter than 4 bytes the round trip
fails. -/
theorem C07_check_roundtrip_iff : ∀ (H : Bytes → Bytes) (payload : Bytes) (v : UInt8),
    CheckDecode H (CheckEncode H payload v) = .ok (payload, v) ↔ 4 ≤ (H (v :: payload)).length :=
  CheckDecode_CheckEncode_iff

/-- Acceptance, structural form: `s` is accepted with result `(p, v)` exactly when its Base58
decoding is `v :: p` followed by the 4-byte checksum of `v :: p`. -/
theorem C07_check_accept_iff : ∀ (H : Bytes → Bytes) (s p : Bytes) (v : UInt8),
    CheckDecode H s = .ok (p, v) ↔
      Decode s = v :: p ++ checksum H (v :: p) ∧ (checksum H (v :: p)).length = 4 :=
  CheckDecode_ok_iff

/-- Acceptance, "last four bytes" form: accepted exactly when the decoding has at least 5 bytes and
its last four bytes are the hash prefix of the rest; the result is then the first byte and the bytes
between it and the checksum. -/
theorem C07_check_accept_iff_tail : ∀ (H : Bytes → Bytes) (s : Bytes) (r : Bytes × UInt8),
    CheckDecode H s = .ok r ↔
      5 ≤ (Decode s).length ∧
      (Decode s).drop ((Decode s).length - 4)
        = (H ((Decode s).take ((Decode s).length - 4))).take 4 ∧
      r = (((Decode s).take ((Decode s).length - 4)).drop 1, (Decode s).headD 0) :=
  CheckDecode_ok_iff_tail

/-- `ErrInvalidFormat` exactly when fewer than 5 bytes decode. -/
theorem C07_check_invalidFormat_iff : ∀ (H : Bytes → Bytes) (s : Bytes),
    CheckDecode H s = .error .invalidFormat ↔ (Decode s).length < 5 :=
  CheckDecode_invalidFormat_iff

/-- `ErrChecksum` exactly when the length is fine and the last four bytes differ from the hash
prefix of the rest. -/
theorem C07_check_checksum_iff : ∀ (H : Bytes → Bytes) (s : Bytes),
    CheckDecode H s = .error .checksum ↔
      5 ≤ (Decode s).length ∧
      (Decode s).drop ((Decode s).length - 4)
        ≠ (H ((Decode s).take ((Decode s).length - 4))).take 4 :=
  CheckDecode_checksum_iff

/-- A string with a foreign byte is rejected as invalid format. -/
theorem C07_check_foreign : ∀ (H : Bytes → Bytes) (s : Bytes), (∃ c ∈ s, b58 c = none) →
    CheckDecode H s = .error .invalidFormat := by
  intro H s h
  rw [CheckDecode_invalidFormat_iff, Decode_foreign s h]; decide

/-- Canonicity: every accepted string is the `CheckEncode` of its result (no hypothesis on `H` or on
the characters of `s`: a foreign character decodes to `[]`, which is rejected). -/
theorem C07_check_canonical : ∀ (H : Bytes → Bytes) (s p : Bytes) (v : UInt8),
    CheckDecode H s = .ok (p, v) → CheckEncode H p v = s :=
  CheckDecode_canonical

/-! non-vacuity with the concrete stand-in "hash" `x ↦ x ++ [1,2,3,4]` (always ≥ 4 bytes) -/
section
local notation "H0" => (fun x : Bytes => x ++ [1, 2, 3, 4])

example : ∀ x, 4 ≤ (H0 x).length := by intro x; simp
example : CheckDecode H0 (CheckEncode H0 [5, 6] 0) = .ok ([5, 6], 0) :=
  C07_check_roundtrip H0 [5, 6] 0 (by simp)
/-- a too-short hash really breaks the round trip -/
example : CheckDecode (fun _ => [1, 2, 3]) (CheckEncode (fun _ => [1, 2, 3]) [5, 6] 0)
    ≠ .ok ([5, 6], 0) := by
  intro h
  have := (C07_check_roundtrip_iff _ _ _).mp h
  simp at this
/-- a checksum error: `[0,1,2,3,4,5]` has body `[0,1]`, whose "hash" prefix `[0,1,1,2] ≠ [2,3,4,5]` -/
example : CheckDecode H0 (Encode [0, 1, 2, 3, 4, 5]) = .error .checksum := by
  rw [C07_check_checksum_iff, C07_b58_dec_enc]; decide
/-- an accepted hand-made string and its result -/
example : CheckDecode H0 (Encode [7, 1, 7, 1, 1, 2]) = .ok ([1], 7) := by
  rw [C07_check_accept_iff, C07_b58_dec_enc]; decide
/-- canonicity applied to it -/
example : CheckEncode H0 [1] 7 = Encode [7, 1, 7, 1, 1, 2] :=
  C07_check_canonical H0 _ _ _ (by rw [C07_check_accept_iff, C07_b58_dec_enc]; decide)
example : CheckDecode H0 (Encode [1, 2, 3, 4]) = .error .invalidFormat := by
  rw [C07_check_invalidFormat_iff, C07_b58_dec_enc]; decide
end

end Bch.Props.C07
