namespace Bch.Props.C11
theorem placeholder : True := trivial
end Bch.Props.C11
