import Bch.Proofs.Merkle
/-
C11 — built merkle-block proofs verify and reveal exactly the chosen transactions.
All theorems are about the model's own `build`, `buildMsg`, `traverse`, `extractMsg`, `packFlags`,
`unpackFlags`, `height`, `isParentGo` (Bch/Model/Merkle.lean); the helper lemmas and the parser-style twin live
in Bch/Proofs/Merkle.lean. (The "two builders agree" clause is established by comparing both Go builders
against this single model in the differential harness.)
-/
namespace Bch.Props.C11
open Bch.Model.Merkle Bch.Proofs.Merkle

variable {H : Type} [DecidableEq H]

/-- `isParentGo` (the Go loop over the leaves below a node) is true exactly when some matched leaf index lies in
`[pos*2^h, min((pos+1)*2^h, n))`. -/
theorem C11_isParent_eq (m : Nat → Bool) (n h pos : Nat) :
    isParentGo m n h pos = true ↔
      ∃ i, pos * 2^h ≤ i ∧ i < (pos+1) * 2^h ∧ i < n ∧ m i = true :=
  isParentGo_iff m n h pos

/-- the recursive characterisation used by the round trip: a leaf is a "parent" iff it is a real matched leaf;
an inner node iff its left child or its (existing) right child is. -/
theorem C11_isParent_rec (m : Nat → Bool) (n : Nat) :
    (∀ pos, isParentGo m n 0 pos = (decide (pos < n) && m pos)) ∧
    (∀ h pos, isParentGo m n (h+1) pos =
      (isParentGo m n h (2*pos) || (decide (2*pos+1 < width n h) && isParentGo m n h (2*pos+1)))) :=
  ⟨isParentGo_zero m n, isParentGo_succ m n⟩

omit [DecidableEq H] in
/-- `isParentGo` = "the list of matched leaves below the node is non-empty" -/
theorem C11_isParent_matchedList (leaves : Nat → H) (m : Nat → Bool) (n h pos : Nat) :
    isParentGo m n h pos = !(matchedList leaves m n h pos).isEmpty :=
  isParentGo_eq_not_isEmpty leaves m n h pos

/-- `calcTreeWidth` is the ceiling of `n / 2^h`: `k < width n h ↔ k * 2^h < n`. -/
theorem C11_width_spec (n h k : Nat) : k < width n h ↔ k * 2^h < n := lt_width_iff n h k

/-- `height n` is the least `h` with `width n h ≤ 1`, and there the width is exactly 1
(for every `1 ≤ n ≤ 2^33`, in particular every uint32 count; the loop has 33 iterations of fuel). -/
theorem C11_height_spec (n : Nat) (h1 : 1 ≤ n) (h2 : n ≤ 2^33) :
    width n (height n) = 1 ∧ (∀ k, k < height n → 1 < width n k) ∧
    (∀ h, width n h ≤ 1 → height n ≤ h) := by
  refine ⟨width_height h1 h2, height_least n, ?_⟩
  intro h hw
  apply Nat.le_of_not_lt
  intro hlt
  have := height_least n h hlt
  omega

example : (1 : Nat) ≤ 5 ∧ 5 ≤ 2^33 ∧ height 5 = 3 ∧ width 5 3 = 1 ∧ width 5 2 = 2 := by decide

/-- unpacking the packed flag bytes gives the bits back, followed by fewer than 8 `false` padding bits
(exactly up to the next multiple of 8). -/
theorem C11_flags_pack (bits : List Bool) :
    ∃ k, k < 8 ∧ (bits.length + k) % 8 = 0 ∧
      unpackFlags (packFlags bits) = bits ++ List.replicate k false :=
  ⟨padLen bits.length, padLen_lt _, padLen_spec _, unpack_packFlags _ bits rfl⟩

/-- a left-injective combiner and pairwise distinct leaves give `NoEqualSiblings` for every subset. -/
theorem distinct_leaves_ok (comb : H → H → H) (leaves : Nat → H) (n : Nat)
    (hcomb : ∀ a b c d, comb a b = comb c d → a = c)
    (hleaves : ∀ i j, i < n → j < n → leaves i = leaves j → i = j) (m : Nat → Bool) :
    NoEqualSiblings comb leaves m n :=
  (noEqualSiblingsAll_of_injective comb leaves n hcomb hleaves).toSubset m

/-- **Round trip, `traverse` level.** Running the Go-shaped extractor on what `build` emits for the whole tree
(followed by arbitrary trailing bits `bs` / hashes `xs`, e.g. byte padding) returns the merkle root, exactly the
matched leaves and their positions in increasing order, `bad = false`, and has consumed exactly the emitted bits
and hashes. -/
theorem C11_roundtrip_traverse (comb : H → H → H) (zero : H) (leaves : Nat → H) (m : Nat → Bool) (n : Nat)
    (h1 : 1 ≤ n) (h2 : n ≤ 2^33) (hne : NoEqualSiblings comb leaves m n) (bs : List Bool) (xs : List H) :
    traverse comb zero n ((build comb leaves m n (height n) 0).1 ++ bs).toArray
        ((build comb leaves m n (height n) 0).2 ++ xs).toArray (height n) 0 {} =
      (calcHash comb leaves n (height n) 0,
        { bitsUsed := (build comb leaves m n (height n) 0).1.length,
          hashesUsed := (build comb leaves m n (height n) 0).2.length,
          bad := false,
          matchedHashes := ((List.range n).filter m).map leaves,
          matchedItems := (List.range n).filter m }) := by
  have he := extractP_build comb leaves m n (height n) 0 bs xs
    (noEqSib_of_NoEqualSiblings hne _ _)
  obtain ⟨t, -⟩ := traverse_init_ok comb zero n _ _ he
  rw [t, matchedList_root leaves m (Nat.le_of_eq (width_height h1 h2))]
  simp [List.map_map, Function.comp_def]

/-- **Round trip, message level, weakest hypothesis.** For every non-empty block (`n ≤ maxTxnCount`, the decoder's
own limit), every subset `m`, under the recursive form `noEqSib … (height n) 0` of the no-equal-siblings
condition (only nodes actually reached from the root count): `extractMsg (buildMsg …)` — i.e. build, pack the flag bits
into bytes, unpack them, the four sanity checks, `traverse`, the three consumption checks — returns the block's
merkle root, exactly the matched leaf hashes and positions in block order, `bad = false`; and the builder's
index list is that same position list. -/
theorem C11_roundtrip_rec (comb : H → H → H) (zero dflt : H) (leaves : List H) (m : Nat → Bool)
    (h1 : 1 ≤ leaves.length) (h2 : leaves.length ≤ maxTxnCount)
    (hne : noEqSib comb (fun i => leaves.getD i dflt) m leaves.length (height leaves.length) 0) :
    extractMsg comb zero (buildMsg comb leaves m dflt).1 =
      ⟨some (calcHash comb (fun i => leaves.getD i dflt) leaves.length (height leaves.length) 0),
       ((List.range leaves.length).filter m).map (fun i => leaves.getD i dflt),
       (List.range leaves.length).filter m,
       false⟩ ∧
    (buildMsg comb leaves m dflt).2 = (List.range leaves.length).filter m := by
  refine ⟨?_, rfl⟩
  have h33 : leaves.length ≤ 2^33 := by unfold maxTxnCount at h2; omega
  generalize hL : (fun i => leaves.getD i dflt) = L at *
  generalize hn : leaves.length = n at *
  have hmsg : (buildMsg comb leaves m dflt).1 =
      ⟨n, (build comb L m n (height n) 0).2, packFlags (build comb L m n (height n) 0).1⟩ := by
    simp only [buildMsg, hL, hn]
  rw [hmsg]
  have hun := unpack_packFlags _ (build comb L m n (height n) 0).1 rfl
  have hpre : PreOK (H := H) ⟨n, (build comb L m n (height n) 0).2,
      packFlags (build comb L m n (height n) 0).1⟩ := by
    refine ⟨?_, h2, ?_, ?_⟩
    · dsimp only; omega
    · have := build_hashes_le_leaves comb L m n (height n) 0 (by omega)
      dsimp only
      omega
    · dsimp only
      rw [hun, List.length_append]
      have := build_hashes_le_bits comb L m n (height n) 0
      omega
  have he := extractP_build comb L m n (height n) 0
    (List.replicate (padLen (build comb L m n (height n) 0).1.length) false) []
    hne
  rw [List.append_nil, ← hun] at he
  rw [extractMsg_of_ok comb zero _ hpre he,
    matchedList_root L m (Nat.le_of_eq (width_height h1 h33))]
  have := padLen_lt (build comb L m n (height n) 0).1.length
  simp [List.map_map, Function.comp_def, this]

/-- **Round trip, message level (headline)**: the same under the explicit, non-recursive `NoEqualSiblings`
(which implies the recursive form). -/
theorem C11_roundtrip (comb : H → H → H) (zero dflt : H) (leaves : List H) (m : Nat → Bool)
    (h1 : 1 ≤ leaves.length) (h2 : leaves.length ≤ maxTxnCount)
    (hne : NoEqualSiblings comb (fun i => leaves.getD i dflt) m leaves.length) :
    extractMsg comb zero (buildMsg comb leaves m dflt).1 =
      ⟨some (calcHash comb (fun i => leaves.getD i dflt) leaves.length (height leaves.length) 0),
       ((List.range leaves.length).filter m).map (fun i => leaves.getD i dflt),
       (List.range leaves.length).filter m,
       false⟩ ∧
    (buildMsg comb leaves m dflt).2 = (List.range leaves.length).filter m :=
  C11_roundtrip_rec comb zero dflt leaves m h1 h2 (noEqSib_of_NoEqualSiblings hne _ _)

/-- **The hypothesis is necessary.** If some node reached by the builder has two equal children, the honest
message is rejected by the extractor (no root, `BadTree` set) — the CVE-2012-2459 rule of C12. Together with
`C11_roundtrip_rec`: the built message is accepted iff `noEqSib … (height n) 0`. -/
theorem C11_rejects_equal_siblings (comb : H → H → H) (zero dflt : H) (leaves : List H) (m : Nat → Bool)
    (h1 : 1 ≤ leaves.length) (h2 : leaves.length ≤ maxTxnCount)
    (hne : ¬ noEqSib comb (fun i => leaves.getD i dflt) m leaves.length (height leaves.length) 0) :
    (extractMsg comb zero (buildMsg comb leaves m dflt).1).root = none ∧
    (extractMsg comb zero (buildMsg comb leaves m dflt).1).bad = true := by
  generalize hL : (fun i => leaves.getD i dflt) = L at *
  generalize hn : leaves.length = n at *
  have hmsg : (buildMsg comb leaves m dflt).1 =
      ⟨n, (build comb L m n (height n) 0).2, packFlags (build comb L m n (height n) 0).1⟩ := by
    simp only [buildMsg, hL, hn]
  rw [hmsg]
  have hun := unpack_packFlags _ (build comb L m n (height n) 0).1 rfl
  have hpre : PreOK (H := H) ⟨n, (build comb L m n (height n) 0).2,
      packFlags (build comb L m n (height n) 0).1⟩ := by
    refine ⟨?_, h2, ?_, ?_⟩
    · dsimp only; omega
    · have := build_hashes_le_leaves comb L m n (height n) 0 (by omega)
      dsimp only
      omega
    · dsimp only
      rw [hun, List.length_append]
      have := build_hashes_le_bits comb L m n (height n) 0
      omega
  have he := extractP_build_error comb L m n (height n) 0
    (List.replicate (padLen (build comb L m n (height n) 0).1.length) false) [] hne
  rw [List.append_nil, ← hun] at he
  exact extractMsg_of_error comb zero _ hpre he

/-- **Exactness**: the honest message for subset `m` is accepted by the extractor iff `NoEqualSiblings` holds
(so the hypothesis of `C11_roundtrip` cannot be weakened). -/
theorem C11_accepted_iff (comb : H → H → H) (zero dflt : H) (leaves : List H) (m : Nat → Bool)
    (h1 : 1 ≤ leaves.length) (h2 : leaves.length ≤ maxTxnCount) :
    (∃ r, (extractMsg comb zero (buildMsg comb leaves m dflt).1).root = some r) ↔
      NoEqualSiblings comb (fun i => leaves.getD i dflt) m leaves.length := by
  have h33 : leaves.length ≤ 2^33 := by unfold maxTxnCount at h2; omega
  constructor
  · rintro ⟨r, hr⟩
    rw [noEqualSiblings_iff _ _ _ _ h1 h33]
    apply Classical.byContradiction
    intro hne
    rw [(C11_rejects_equal_siblings comb zero dflt leaves m h1 h2 hne).1] at hr
    cases hr
  · intro hne
    exact ⟨_, congrArg Extracted.root (C11_roundtrip comb zero dflt leaves m h1 h2 hne).1⟩

/-- non-vacuity of `C11_rejects_equal_siblings`: two equal leaves, both matched -/
example : ¬ noEqSib (fun a b : Nat => 1000 * a + b) (fun i => [5, 5].getD i 0) (fun _ => true)
    [5, 5].length (height [5, 5].length) 0 :=
  fun h => ((h (by decide)).2 (by decide)).2 rfl

/-- what the extractor's cursors look like on a built message: all hashes consumed, all bits consumed up to
fewer than 8 padding bits. -/
theorem C11_roundtrip_consumed (comb : H → H → H) (zero dflt : H) (leaves : List H) (m : Nat → Bool)
    (h1 : 1 ≤ leaves.length) (h2 : leaves.length ≤ maxTxnCount)
    (hne : NoEqualSiblings comb (fun i => leaves.getD i dflt) m leaves.length) :
    let msg := (buildMsg comb leaves m dflt).1
    let st := (traverse comb zero msg.numTx (unpackFlags msg.flags).toArray msg.hashes.toArray
                (height msg.numTx) 0 {}).2
    st.bad = false ∧ st.hashesUsed = msg.hashes.length ∧
      st.bitsUsed ≤ (unpackFlags msg.flags).length ∧ (unpackFlags msg.flags).length < st.bitsUsed + 8 := by
  intro msg st
  have h33 : leaves.length ≤ 2^33 := by unfold maxTxnCount at h2; omega
  have hun := unpack_packFlags _
    (build comb (fun i => leaves.getD i dflt) m leaves.length (height leaves.length) 0).1 rfl
  have ht := C11_roundtrip_traverse comb zero (fun i => leaves.getD i dflt) m leaves.length h1 h33 hne
    (List.replicate (padLen
      (build comb (fun i => leaves.getD i dflt) m leaves.length (height leaves.length) 0).1.length) false) []
  rw [List.append_nil, ← hun] at ht
  have hst : st = _ := congrArg Prod.snd ht
  have hp := padLen_lt
    (build comb (fun i => leaves.getD i dflt) m leaves.length (height leaves.length) 0).1.length
  have hlen : (unpackFlags msg.flags).length = _ := congrArg List.length hun
  rw [List.length_append, List.length_replicate] at hlen
  rw [hst]
  refine ⟨rfl, rfl, ?_, ?_⟩ <;> dsimp only <;> omega

/-! ### non-vacuity: five distinct leaves in the free tree algebra, subset {1,4} -/

section Example
open FreeTree

/-- the hypothesis of `C11_roundtrip` holds for a concrete injective combiner and distinct leaves -/
example : NoEqualSiblings node (fun i => exLeaves.getD i (leaf 0)) exM exLeaves.length :=
  distinct_leaves_ok node _ _ (fun _ _ _ _ h => by injection h) exDistinct exM

/-- … and the theorem yields the expected concrete result: root of the 5-leaf tree (right edge duplicated twice),
matches `[leaf 1, leaf 4]` at positions `[1, 4]`. -/
example :
    extractMsg node (leaf 99) (buildMsg node exLeaves exM (leaf 0)).1 =
      ⟨some (node (node (node (leaf 0) (leaf 1)) (node (leaf 2) (leaf 3)))
                  (node (node (leaf 4) (leaf 4)) (node (leaf 4) (leaf 4)))),
       [leaf 1, leaf 4], [1, 4], false⟩ := by
  have h := (C11_roundtrip node (leaf 99) (leaf 0) exLeaves exM (by decide) (by decide)
    (distinct_leaves_ok node _ _ (fun _ _ _ _ h => by injection h) exDistinct exM)).1
  rw [h]
  simp only [Extracted.mk.injEq, Option.some.injEq]
  decide

end Example

end Bch.Props.C11
