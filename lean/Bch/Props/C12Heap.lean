import Bch.Proofs.MerkleHeap
import Bch.Props.C12
/-
C12, the memory clause: WHICH MEMORY `merkleblock.NewMerkleBlockFromMsg` and `(*PartialBlock).ExtractMatches`
(/repo/merkleblock/decode.go) read and write.

Heap-level model: `Bch.Model.MerkleHeap` (hash objects by pointer; `[]*chainhash.Hash`, `[]byte`, `[]uint32` backing
arrays with slice headers `(array, off, len, cap)`; `append` stores in place when the capacity allows and otherwise
allocates, with an arbitrary growth policy `G`).  `HKeeps h h'` = nothing that existed in `h` has been written:
every hash object and every array of `h` — whole arrays, spare capacity included — is in `h'` at the same index with
the same contents (`C12_kept_means`).

What the Go code does with caller memory (all of it is stated below):
* `NewMerkleBlockFromMsg` stores the caller's slice header `msg.Hashes` in the object (`finalHashes`): the object
  RETAINS the caller's pointer array (it only ever reads it).  `msg.Flags` is not retained: its bits are unpacked into
  a new `[]byte`.
* `GetMatches()` returns a NEW pointer array whose ELEMENTS are the caller's hash objects (pointers copied out of
  `msg.Hashes`): the matched hashes are shared with the message, not copied.
* `ExtractMatches()` returns a new hash object, except when the root node is not descended into (one transaction, or
  root flag bit 0): then it returns the POINTER `msg.Hashes[0]` — the caller's own object.
-/
namespace Bch.Props.C12
open Bch Bch.Model.Merkle Bch.Model.MerkleHeap Bch.Proofs.MerkleHeap

variable {H : Type} [DecidableEq H]

omit [DecidableEq H] in
/-- what "kept" means, element by element: every old hash object, every old array (as a whole), hence every read
through a slice of an old array and every dereference of an old pointer, is as before -/
theorem C12_kept_means {h h' : Heap H} (k : HKeeps h h') :
    (∀ p, p < h.hashes.length → h'.hashes[p]? = h.hashes[p]?) ∧
    (∀ b, b < h.ptrs.length → h'.ptrs[b]? = h.ptrs[b]?) ∧
    (∀ b, b < h.bytes.length → h'.bytes[b]? = h.bytes[b]?) ∧
    (∀ b, b < h.u32s.length → h'.u32s[b]? = h.u32s[b]?) ∧
    (∀ (s : Slice), s.arr < h.ptrs.length → readPtrs h' s = readPtrs h s) ∧
    (∀ (s : Slice), s.arr < h.bytes.length → readBytes h' s = readBytes h s) ∧
    (∀ (s : Slice), s.arr < h.u32s.length → readU32 h' s = readU32 h s) ∧
    (∀ (zero : H) p, p < h.hashes.length → deref zero h' p = deref zero h p) := k.meaning

/-- **Frame, unconditionally.**  For EVERY heap, EVERY message object the model can represent (slice headers out of
range or dangling pointers included — there the statement is about the totalised reads; a NIL entry in a caller-built
`msg.Hashes`, on which Go panics, is not representable), every growth policy:
`NewMerkleBlockFromMsg(msg)` followed by `ExtractMatches()` writes to no hash object and no array that existed before
the call (so `msg.Hashes` with its spare capacity, every hash object and `msg.Flags` are unchanged) and leaves the
`Tx` wrappers alone.  The object keeps the caller's slice header `msg.Hashes`; its `bits`, and the two slices
`GetMatches()` / `GetItems()` hand out, lie in arrays allocated by the two calls. -/
theorem C12_extract_frame (G : Growth) (comb : H → H → H) (zero : H) (h : Heap H) (msg : MsgObj) :
    let n := newFromMsg h msg
    let R := extractMatchesH G comb zero n.1 n.2
    HKeeps h R.2.1 ∧ R.2.1.txs = h.txs ∧
    R.2.2.finalHashes = msg.hashes ∧
    h.bytes.length ≤ R.2.2.bits.arr ∧
    h.ptrs.length ≤ (getMatches R.2.2).arr ∧ h.u32s.length ≤ (getItems R.2.2).arr := by
  obtain ⟨k1, t1, -, f1, -, b1, -, -⟩ := newFromMsg_frame h msg
  obtain ⟨k2, t2, -, m2, i2, f2, s2, -⟩ := extractMatchesH_frame G comb zero (newFromMsg h msg).1 (newFromMsg h msg).2
  refine ⟨k1.trans k2, t2.trans t1, f2.trans f1, ?_, Nat.le_trans k1.ptrs.length_le m2,
    Nat.le_trans k1.u32s.length_le i2⟩
  rw [s2, b1]; exact Nat.le_refl _

/-- every later call of `ExtractMatches` on any object in any heap has the same frame: nothing that exists is
written, and the result slices of the call are new arrays (they are re-made on every call, fix 35d217e) -/
theorem C12_extract_again_frame (G : Growth) (comb : H → H → H) (zero : H) (h : Heap H) (pb : PB) :
    let R := extractMatchesH G comb zero h pb
    HKeeps h R.2.1 ∧ R.2.1.txs = h.txs ∧ R.2.1.bytes = h.bytes ∧
    h.ptrs.length ≤ (getMatches R.2.2).arr ∧ h.u32s.length ≤ (getItems R.2.2).arr ∧
    R.2.2.finalHashes = pb.finalHashes ∧ R.2.2.bits = pb.bits ∧ R.2.2.numTx = pb.numTx :=
  extractMatchesH_frame G comb zero h pb

/-- the message object is well formed in the heap (both slices inside existing arrays, no dangling hash pointer) -/
abbrev MsgWF := @Bch.Proofs.MerkleHeap.MsgWF

/-- **`NewMerkleBlockFromMsg` + `ExtractMatches` read only the message, and where the results live.**
For every heap, every well-formed message object, every growth policy:
1. nothing that existed before the call is written (`HKeeps`), the `Tx` wrappers are untouched; hence the message
   denotes the same value afterwards;
2. what the caller reads back — root, `GetMatches()`, `GetItems()`, `BadTree()` — is exactly the value-level
   `extractMsg` of the message (so all of `Props/C12.lean` holds of the heap run);
3. the returned root pointer exists and is either a NEW hash object or the caller's pointer `msg.Hashes[0]`;
4. the pointer list `GetMatches()` returns is a sublist of the pointer list `msg.Hashes`: the matched hashes ARE the
   caller's hash objects; the array holding the pointers, and the `GetItems()` array, are new. -/
theorem C12_extract_reads_only_the_message (G : Growth) (comb : H → H → H) (zero : H) (h : Heap H) (msg : MsgObj)
    (W : MsgWF h msg) :
    let n := newFromMsg h msg
    let R := extractMatchesH G comb zero n.1 n.2
    -- 1
    HKeeps h R.2.1 ∧ R.2.1.txs = h.txs ∧ absMsg zero R.2.1 msg = absMsg zero h msg ∧
    -- 2
    absExtracted zero R = extractMsg comb zero (absMsg zero h msg) ∧
    -- 3
    (∀ p, R.1 = some p → p < R.2.1.hashes.length ∧
      (h.hashes.length ≤ p ∨ (readPtrs h msg.hashes)[0]? = some p)) ∧
    -- 4
    (readPtrs R.2.1 (getMatches R.2.2)).Sublist (readPtrs h msg.hashes) ∧
    h.ptrs.length ≤ (getMatches R.2.2).arr ∧ (getMatches R.2.2).arr < R.2.1.ptrs.length ∧
    h.u32s.length ≤ (getItems R.2.2).arr ∧ (getItems R.2.2).arr < R.2.1.u32s.length := by
  obtain ⟨k, t, -, -, m, i⟩ := C12_extract_frame G comb zero h msg
  have P := newFromMsg_pbfor W (HKeeps.refl h)
  obtain ⟨-, e, r, s, a1, a2⟩ := extractMatchesH_spec G comb zero W P
  refine ⟨k, t, absMsg_keeps zero W k, e, ?_, s, m, a1, i, a2⟩
  intro p hp
  obtain ⟨r1, r2⟩ := r p hp
  refine ⟨r1, ?_⟩
  rcases r2 with r2 | r2
  · exact Or.inl (by simpa [newFromMsg, makeU32, makePtr, makeByte] using r2)
  · exact Or.inr r2

/-- **Extracting again gives the same values** (heap-level counterpart of `C12_repeatable`).  For every `k`: after `k`
calls of `ExtractMatches` on the object, the `(k+1)`-th call on the SAME object, and a call on a NEW object made from
the same message after all of that, both let the caller read back exactly `extractMsg` of the message as it was at
the start; the message still denotes the same value; nothing that existed at the start has been written. -/
theorem C12_extract_twice_same (G : Growth) (comb : H → H → H) (zero : H) (h : Heap H) (msg : MsgObj)
    (W : MsgWF h msg) (k : Nat) :
    let s := extractTimes G comb zero k (newFromMsg h msg)
    let R := extractMatchesH G comb zero s.1 s.2
    let n' := newFromMsg R.2.1 msg
    let R' := extractMatchesH G comb zero n'.1 n'.2
    absExtracted zero R = extractMsg comb zero (absMsg zero h msg) ∧
    absExtracted zero R' = extractMsg comb zero (absMsg zero h msg) ∧
    absExtracted zero R' = absExtracted zero R ∧
    HKeeps h R'.2.1 ∧ absMsg zero R'.2.1 msg = absMsg zero h msg := by
  have P0 := newFromMsg_pbfor W (HKeeps.refl h)
  have Pk := extractTimes_pbfor G comb zero W k _ _ P0
  obtain ⟨P1, e1, -⟩ := extractMatchesH_spec G comb zero W Pk
  have P2 := newFromMsg_pbfor W P1.keeps
  obtain ⟨P3, e2, -⟩ := extractMatchesH_spec G comb zero W P2
  exact ⟨e1, e2, e2.trans e1.symm, P3.keeps, absMsg_keeps zero W P3.keeps⟩

/-- **The results of an earlier call survive later calls**: whatever is done afterwards on heaps that keep what
exists (in particular any number of further `ExtractMatches` calls on any object, by `C12_extract_again_frame`),
the slices `GetMatches()` / `GetItems()` handed out by a call still read the same — no buffer is reused. -/
theorem C12_earlier_results_survive (G : Growth) (comb : H → H → H) (zero : H) (h : Heap H) (msg : MsgObj)
    (W : MsgWF h msg) (hLater : Heap H) :
    let n := newFromMsg h msg
    let R := extractMatchesH G comb zero n.1 n.2
    HKeeps R.2.1 hLater →
    readHashes zero hLater (getMatches R.2.2) = readHashes zero R.2.1 (getMatches R.2.2) ∧
    readU32 hLater (getItems R.2.2) = readU32 R.2.1 (getItems R.2.2) := by
  intro n R kl
  obtain ⟨-, -, -, -, -, s, -, a1, -, a2⟩ := C12_extract_reads_only_the_message G comb zero h msg W
  have hp : readPtrs hLater (getMatches R.2.2) = readPtrs R.2.1 (getMatches R.2.2) := kl.ptrs.readA a1
  refine ⟨?_, kl.u32s.readA a2⟩
  unfold readHashes
  rw [hp]
  apply List.map_congr_left
  intro p hp'
  have : p < h.hashes.length := W.hashes_ok p (s.subset hp')
  have kh := (C12_extract_frame G comb zero h msg).1.hashes.length_le
  exact deref_keeps zero kl.hashes (Nat.lt_of_lt_of_le this kh)

/-! ### non-vacuity and negative witnesses (kernel evaluation on concrete heaps; `H := Nat`, `exComb a b = 1000a+b`) -/

section Examples
open Bch.Proofs.Merkle

/-- growth policy "double": spare capacity = needed length -/
def exG : Growth := ⟨fun _ n => n, fun _ n => n, fun _ n => n⟩

/-- three hash objects 10, 11, 99; `msg.Hashes` = all three, inside an array with one slot of spare capacity;
`msg.Flags` = 0x0B (bits 1,1,0,1,0: leaf 1 of 3 matched) -/
def exHeap : Heap Nat := ⟨[10, 11, 99], [[0, 1, 2, 0]], [[0x0B]], [], []⟩
def exMsg : MsgObj := ⟨3, ⟨0, 0, 3, 4⟩, ⟨0, 0, 1, 1⟩⟩

/-- the hypothesis `MsgWF` is satisfiable -/
example : MsgWF exHeap exMsg :=
  { hashes_arr := by decide, hashes_valid := by unfold ValidA; decide, hashes_ok := by decide,
    flags_arr := by decide, flags_valid := by unfold ValidA; decide }

/-- the real code: a new object, then `ExtractMatches` -/
def exR : Option Nat × Heap Nat × PB :=
  extractMatchesH exG exComb 0 (newFromMsg exHeap exMsg).1 (newFromMsg exHeap exMsg).2

/-- the run on the example: root = a new object (pointer 4) holding the merkle root, one matched hash — the pointer 1,
the caller's object — at position 1; the caller's arrays are as before; the values are `extractMsg`'s -/
example :
    exR.1 = some 4 ∧ deref 0 exR.2.1 4 = exComb (exComb 10 11) 99 ∧
    readPtrs exR.2.1 (getMatches exR.2.2) = [1] ∧ readU32 exR.2.1 (getItems exR.2.2) = [1] ∧
    exR.2.1.ptrs[0]? = some [0, 1, 2, 0] ∧ exR.2.1.hashes.take 3 = [10, 11, 99] ∧
    exR.2.1.bytes[0]? = some [0x0B] ∧
    (absExtracted 0 exR).root = (extractMsg exComb 0 (absMsg 0 exHeap exMsg)).root ∧
    (absExtracted 0 exR).matches_ = (extractMsg exComb 0 (absMsg 0 exHeap exMsg)).matches_ := by decide +kernel

/-- clause 3 is tight: with ONE transaction the returned root IS the caller's object `msg.Hashes[0]` (pointer 0),
not a copy -/
example :
    (extractMatchesH exG exComb 0
      (newFromMsg (⟨[7], [[0]], [[0x00]], [], []⟩ : Heap Nat) ⟨1, ⟨0, 0, 1, 1⟩, ⟨0, 0, 1, 1⟩⟩).1
      (newFromMsg (⟨[7], [[0]], [[0x00]], [], []⟩ : Heap Nat) ⟨1, ⟨0, 0, 1, 1⟩, ⟨0, 0, 1, 1⟩⟩).2).1 = some 0 := by
  decide +kernel

/-- the `[:0]`-reuse variant, first and second call on the same object -/
def exBad1 : Option Nat × Heap Nat × PB :=
  extractMatchesReuse exG exComb 0 (newFromMsg exHeap exMsg).1 (newFromMsg exHeap exMsg).2
def exBad2 : Option Nat × Heap Nat × PB := extractMatchesReuse exG exComb 0 exBad1.2.1 exBad1.2.2

/-- **negative witness (a)**: the variant that collects the matched hashes in `m.finalHashes[:0]` (the message's own
array) OVERWRITES the caller's `msg.Hashes` — the message denotes `[11, 11, 99]` instead of `[10, 11, 99]` afterwards
— and a second extraction of the same object differs: the first call returns the merkle root, the second `nil`
(the duplicated hash trips the equal-children check).  `C12_extract_frame` and `C12_extract_twice_same` fail for it. -/
example :
    (absExtracted 0 exBad1).root = some (exComb (exComb 10 11) 99) ∧
    (absMsg 0 exBad1.2.1 exMsg).hashes = [11, 11, 99] ∧ (absMsg 0 exHeap exMsg).hashes = [10, 11, 99] ∧
    exBad1.2.1.ptrs[0]? = some [1, 1, 2, 0] ∧
    (absExtracted 0 exBad2).root = none ∧ (absExtracted 0 exBad2).root ≠ (absExtracted 0 exBad1).root := by decide +kernel

/-- … whereas the real code, on the same heap, answers the same three times (same object twice, then a new object) -/
def exR2 : Option Nat × Heap Nat × PB := extractMatchesH exG exComb 0 exR.2.1 exR.2.2
def exR3 : Option Nat × Heap Nat × PB :=
  extractMatchesH exG exComb 0 (newFromMsg exR2.2.1 exMsg).1 (newFromMsg exR2.2.1 exMsg).2

example :
    (absExtracted 0 exR2).root = (absExtracted 0 exR).root ∧ (absExtracted 0 exR3).root = (absExtracted 0 exR).root ∧
    (absExtracted 0 exR3).matches_ = [11] ∧ (absExtracted 0 exR2).matches_ = [11] ∧
    (absExtracted 0 exR3).items = [1] ∧ (absExtracted 0 exR).root = some (exComb (exComb 10 11) 99) ∧
    (absMsg 0 exR3.2.1 exMsg).hashes = [10, 11, 99] ∧
    -- the slices the FIRST call handed out still read the same after the two later calls
    readPtrs exR3.2.1 (getMatches exR.2.2) = [1] ∧ readU32 exR3.2.1 (getItems exR.2.2) = [1] := by decide +kernel

/-- the hypothesis `HKeeps R.2.1 hLater` of `C12_earlier_results_survive` is what a later call provides -/
example : HKeeps exR.2.1 exR2.2.1 := (C12_extract_again_frame exG exComb 0 exR.2.1 exR.2.2).1

/-- the in-place branch of `append` is exercised: with the doubling policy the second matched hash of a two-leaf
message goes into the spare capacity of the array the first `append` allocated -/
def exR4 : Option Nat × Heap Nat × PB :=
  extractMatchesH exG exComb 0
    (newFromMsg (⟨[5, 6], [[0, 1]], [[0x07]], [], []⟩ : Heap Nat) ⟨2, ⟨0, 0, 2, 2⟩, ⟨0, 0, 1, 1⟩⟩).1
    (newFromMsg (⟨[5, 6], [[0, 1]], [[0x07]], [], []⟩ : Heap Nat) ⟨2, ⟨0, 0, 2, 2⟩, ⟨0, 0, 1, 1⟩⟩).2

example : readPtrs exR4.2.1 (getMatches exR4.2.2) = [0, 1] ∧ (getMatches exR4.2.2).cap = 2 ∧
    (getMatches exR4.2.2).len = 2 := by decide +kernel

end Examples

end Bch.Props.C12
