import Bch.Proofs.SliceHeap
/-!
C07 (part c): purity — "none of these functions modifies memory reachable from its arguments".

`Bch/Model/SliceHeap.lean` gives a minimal semantics of Go byte slices (a heap of backing arrays; slice
headers `(buf, off, len, cap)`; `make`; `append` that stores in place into the spare capacity when the
elements fit and allocates otherwise, for an arbitrary growth policy `g`) and transcribes at that level
the buffer handling of `bech32.Encode` (repaired, commit 6c4af82, and the historical aliasing version),
`bech32Checksum`, `toChars`, `ConvertBits`, `base58.Encode` and `base58.CheckEncode`.

"Every byte of every pre-existing array is unchanged" is stated as
`∀ b a, h[b]? = some a → h'[b]? = some a`: each backing array that existed in the initial heap `h` is still
there in the final heap `h'`, at the same index, with exactly the same contents — this covers the whole
backing array of every argument slice including its spare capacity `s[len:cap]`, and the memory behind any
other slice the caller may hold.  No hypothesis on the argument slices is needed for that part (any `off`,
`len`, `cap`); the *value* parts assume the argument slice lies inside its backing array (true of every
slice a Go program can hold) and tie the heap-level result to the value-level models.

All proofs live in `Bch/Proofs/SliceHeap.lean`.
-/
namespace Bch.Props.C07
open Bch Bch.Model Bch.Model.SliceHeap

/-- **Frame of the primitives.** `append(s, xs...)` keeps every existing array at its index with its
length, and never changes a byte outside the spare-capacity window `[off+len, off+cap)` of the array of `s`;
when the elements do not fit (`len+|xs| > cap`) it allocates and no existing array changes at all;
`make` never changes an existing array. -/
theorem C07_pure_frame (g : Nat → Nat) (h : Heap) (s : Slice) (xs : List UInt8) :
    (∀ (b : Nat) (a : List UInt8), h[b]? = some a →
      ∃ a', (append g h s xs).1[b]? = some a' ∧ a'.length = a.length ∧
        ∀ i, ¬(b = s.buf ∧ s.off + s.len ≤ i ∧ i < s.off + s.cap) → a'[i]? = a[i]?) ∧
    (¬ s.len + xs.length ≤ s.cap →
      ∀ (b : Nat) (a : List UInt8), h[b]? = some a → (append g h s xs).1[b]? = some a) ∧
    (∀ (n c b : Nat) (a : List UInt8), h[b]? = some a → (make h n c).1[b]? = some a) :=
  ⟨fun b a hb => Bch.Proofs.SliceHeap.append_frame g h s xs b a hb,
   fun hfit => Bch.Proofs.SliceHeap.append_alloc_pres g h s xs hfit,
   fun n c => Bch.Proofs.SliceHeap.make_pres h n c⟩

/-- **Content of `append`**: for a slice inside its backing array the returned slice is again inside its
array and holds the old elements followed by `xs` (in place or in the fresh array). -/
theorem C07_pure_append_value (g : Nat → Nat) (h : Heap) (s : Slice) (xs : List UInt8)
    (hs : s.len ≤ s.cap ∧ s.off + s.cap ≤ (arr h s.buf).length) :
    read (append g h s xs).1 (append g h s xs).2 = read h s ++ xs ∧
    ((append g h s xs).2.len ≤ (append g h s xs).2.cap ∧
      (append g h s xs).2.off + (append g h s xs).2.cap
        ≤ (arr (append g h s xs).1 (append g h s xs).2.buf).length) :=
  ⟨Bch.Proofs.SliceHeap.append_read g hs xs, Bch.Proofs.SliceHeap.append_wf g hs xs⟩

/-- a concrete heap and a slice `data = a[0:3]` with `cap(data) = 9`, i.e. spare capacity 6 -/
def witnessHeap : Heap := [[1, 2, 3, 7, 7, 7, 7, 7, 7], [42]]
def witnessData : Slice := ⟨0, 0, 3, 9⟩

/-- non-vacuity of the slice hypothesis (and the witness slice reads `[1,2,3]`) -/
example : (witnessData.len ≤ witnessData.cap ∧
    witnessData.off + witnessData.cap ≤ (arr witnessHeap witnessData.buf).length) ∧
    read witnessHeap witnessData = [1, 2, 3] := by decide

/-- **Purity of the repaired `bech32.Encode`** (`checksum := bech32Checksum(hrp, data); combined :=
make([]byte, 0, len(data)+len(checksum)); combined = append(combined, data...); combined =
append(combined, checksum...); toChars(combined)`): for every heap, every growth policy and every argument
slice, every pre-existing array is unchanged — in particular the whole backing array of `data` including
its spare capacity. For a slice inside its array the bytes of `combined` are `data ++ checksum`, and
`hrp ++ "1" ++ string(result of toChars)` is the value-level `Bech32.Encode` (error iff error). -/
theorem C07_pure_bech32_encode (g : Nat → Nat) (h : Heap) (hrp : Bytes) (data : Slice) :
    (∀ (b : Nat) (a : List UInt8), h[b]? = some a → (EncodeFixed g h hrp data).1[b]? = some a) ∧
    (data.buf < h.length → arr (EncodeFixed g h hrp data).1 data.buf = arr h data.buf) ∧
    (data.len ≤ data.cap ∧ data.off + data.cap ≤ (arr h data.buf).length →
      read (EncodeFixed g h hrp data).1 (EncodeFixed g h hrp data).2.1
        = read h data ++ Bech32.checksum hrp (read h data) ∧
      (EncodeFixed g h hrp data).2.2.map (fun r => hrp ++ [49] ++ read (EncodeFixed g h hrp data).1 r)
        = Bech32.Encode hrp (read h data)) :=
  ⟨(Bch.Proofs.SliceHeap.encodeFixed_spec g h hrp data).1,
   fun hb => (Bch.Proofs.SliceHeap.encodeFixed_spec g h hrp data).1.arr_eq hb,
   (Bch.Proofs.SliceHeap.encodeFixed_spec g h hrp data).2⟩

/-- test: the repaired `Encode` on the witness (hrp `"a"`, spare capacity 6) leaves the caller's array
as it was and produces the model's string -/
example : (EncodeFixed (fun _ => 0) witnessHeap [97] witnessData).1.take 2 = witnessHeap ∧
    (EncodeFixed (fun _ => 0) witnessHeap [97] witnessData).2.2.map
        (fun r => [97] ++ [49] ++ read (EncodeFixed (fun _ => 0) witnessHeap [97] witnessData).1 r)
      = Bech32.Encode [97] [1, 2, 3] := by decide +kernel

/-- **Negative witness** (the historical defect, `combined := append(data, checksum...)`): for the slice
with spare capacity 6 the pre-fix `Encode` overwrites the six bytes behind the caller's slice with the
checksum — whatever the growth policy. -/
theorem C07_pure_aliasing_witness (g : Nat → Nat) :
    arr witnessHeap 0 = [1, 2, 3, 7, 7, 7, 7, 7, 7] ∧
    arr (EncodeAliasing g witnessHeap [97] witnessData).1 0
      = [1, 2, 3] ++ Bech32.checksum [97] [1, 2, 3] ∧
    arr (EncodeAliasing g witnessHeap [97] witnessData).1 0 ≠ arr witnessHeap 0 := by
  have e := Bch.Proofs.SliceHeap.encodeAliasing_arr g witnessHeap [97] witnessData
    (show _ ∧ _ by decide) (by decide)
  have e' : arr (EncodeAliasing g witnessHeap [97] witnessData).1 0
      = writeAt (arr witnessHeap 0) 3 (Bech32.checksum [97] (read witnessHeap witnessData)) := e
  rw [e']
  decide +kernel

/-- the same by plain evaluation, for two concrete growth policies (exact fit, doubling) -/
example : arr (EncodeAliasing (fun _ => 0) witnessHeap [97] witnessData).1 0 = [1, 2, 3, 31, 5, 28, 4, 0, 10] ∧
    arr (EncodeAliasing (fun n => n) witnessHeap [97] witnessData).1 0 = [1, 2, 3, 31, 5, 28, 4, 0, 10] := by
  decide +kernel

/-- **Purity of `ConvertBits`** (`var regrouped []byte` grown by `append`): every pre-existing array is
unchanged, and the returned slice (or error) is the value-level `Bech32.ConvertBits` of the bytes of
`data`. -/
theorem C07_pure_convertbits (g : Nat → Nat) (h : Heap) (data : Slice) (fromBits toBits : Nat) (pad : Bool) :
    (∀ (b : Nat) (a : List UInt8), h[b]? = some a →
      (ConvertBitsH g h data fromBits toBits pad).1[b]? = some a) ∧
    (match (ConvertBitsH g h data fromBits toBits pad).2 with
      | .ok out => Except.ok (read (ConvertBitsH g h data fromBits toBits pad).1 out)
      | .error e => Except.error e) = Bech32.ConvertBits (read h data) fromBits toBits pad :=
  Bch.Proofs.SliceHeap.convertBitsH_spec g h data fromBits toBits pad

/-- test: 8→5 regrouping of the witness slice on the heap -/
example : (ConvertBitsH (fun n => n) witnessHeap witnessData 8 5 true).1.take 2 = witnessHeap ∧
    (match (ConvertBitsH (fun n => n) witnessHeap witnessData 8 5 true).2 with
      | .ok out => some (read (ConvertBitsH (fun n => n) witnessHeap witnessData 8 5 true).1 out)
      | .error _ => none) = some [0, 4, 1, 0, 6] := by decide +kernel

/-- **Purity of `base58.Encode`** (`answer := make([]byte, 0, len(b)*136/100)`, one `append` per digit and
per leading zero, in-place reversal of `answer`): every pre-existing array is unchanged and `answer`
holds the value-level `Base58.Encode` of the bytes of `b`. -/
theorem C07_pure_base58_encode (g : Nat → Nat) (h : Heap) (b : Slice) :
    (∀ (i : Nat) (a : List UInt8), h[i]? = some a → (Base58EncodeBuf g h b).1[i]? = some a) ∧
    read (Base58EncodeBuf g h b).1 (Base58EncodeBuf g h b).2 = Base58.Encode (read h b) :=
  Bch.Proofs.SliceHeap.base58EncodeBuf_spec g (Bch.Proofs.SliceHeap.Pres.refl h) b

/-- **Purity of `CheckEncode`** (`b := make([]byte, 0, 1+len(input)+4); b = append(b, version); b =
append(b, input...); b = append(b, cksum[:]...); Encode(b)`): every pre-existing array is unchanged — in
particular the backing array of `input`; for a slice inside its array `b` holds
`version :: input ++ checksum` and `Encode`'s buffer the value-level `Base58.CheckEncode`. -/
theorem C07_pure_checkencode (H : Bytes → Bytes) (g : Nat → Nat) (h : Heap) (input : Slice) (version : UInt8) :
    (∀ (b : Nat) (a : List UInt8), h[b]? = some a → (CheckEncodeBuf H g h input version).1[b]? = some a) ∧
    (input.len ≤ input.cap ∧ input.off + input.cap ≤ (arr h input.buf).length →
      read (CheckEncodeBuf H g h input version).1 (CheckEncodeBuf H g h input version).2.1
        = version :: read h input ++ Base58.checksum H (version :: read h input) ∧
      read (CheckEncodeBuf H g h input version).1 (CheckEncodeBuf H g h input version).2.2
        = Base58.CheckEncode H (read h input) version) :=
  Bch.Proofs.SliceHeap.checkEncodeBuf_spec H g h input version

/-- test: `CheckEncode` on the witness with a toy checksum function -/
example : (CheckEncodeBuf (fun x => x.reverse) (fun _ => 3) witnessHeap witnessData 5).1.take 2 = witnessHeap ∧
    read (CheckEncodeBuf (fun x => x.reverse) (fun _ => 3) witnessHeap witnessData 5).1
        (CheckEncodeBuf (fun x => x.reverse) (fun _ => 3) witnessHeap witnessData 5).2.1
      = [5, 1, 2, 3, 3, 2, 1, 5] := by decide +kernel

end Bch.Props.C07
