import Bch.Model.Base58
namespace Bch.Props.C07
theorem dummy : 1 + 1 = 2 := rfl
end Bch.Props.C07
