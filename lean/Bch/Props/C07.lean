import Bch.Props.C07a
import Bch.Props.C07b
/-! Property C07: Base58 / Base58Check theorems live in `C07a`, bech32 / ConvertBits theorems in `C07b`. -/
