import Bch.Props.C07a
import Bch.Props.C07b
import Bch.Props.C07c
/-! Property C07: Base58 / Base58Check theorems live in `C07a`, bech32 / ConvertBits theorems in `C07b`,
the purity (slice/heap frame) theorems `C07_pure_*` in `C07c`. -/
