import Bch.Proofs.CheckedCost
import Bch.Props.C08Addr
/-
C08 (part 6) — "… running time at most quadratic in the input length and allocation proportional to it":
explicit STEP and ALLOCATION bounds for the string parsers, which so far only had no-fault theorems:
`DecodeCashAddress`, `checkDecodeCashAddress`, Base58 `Decode` / `CheckDecode`, `DecodeWIF`,
`NewKeyFromString`, `DecodeAddress`, bech32 `Decode` / `Encode`, bloom `matches` / `add`, jsonpb
`convertHex`. (Merkle extraction, the GCS decoders, `ConvertBits`, the bloom transaction matcher have
theirs in C08.lean / C08Gcs.lean / C08BloomTx.lean.)

`Bch/Proofs/CheckedCost.lean` defines, WITHOUT touching the transcriptions, for each entry point `foo` a
cost function `fooCost` and an allocation function `fooAlloc`. Its header says exactly what one unit is:

  U1 one iteration of a Go loop = 1 (its bounded work — index expressions, look-ups in fixed tables,
     machine-word arithmetic, a one-element `append` — included);
  U2 a checked primitive outside a loop (`idx?`, `slice?`, a 4-byte comparison) = 1;
  U3 a bulk operation on n elements (`make`, `copy`, `append(x, y...)`, `ToLower`, string `==`,
     `EqualFold`, `LastIndexByte`, `hex.DecodeString`, `big.Int.Bytes`, and STRING CONCATENATION, which in
     Go copies the whole new string) = n + 1;
  U4 an external function on n bytes (double SHA-256, `MurmurHash3`, `ParsePubKey`, the string converter
     of `convertHex`) = n + 1;
  U5 a `math/big` operation on a k-byte operand = k + 1.

and how the cost functions are tied to the code: every loop of a transcription is PROVED to be the generic
early-exit loop `forC` / `downC` / `rangeC` on an explicit body (`cost_loops_are_the_transcriptions`), and
its cost is by definition the generic ghost counter of that same loop (the weights of the iterations it
executes). Model functions called by a transcription (`verifyChecksum`, `convertBits`, `MurmurHash3`, …) are
charged by the elements they traverse; `convertHex` is charged on the MODEL (said in its theorem).

RESULTS. Everything behind Base58 is quadratic (U5), as expected. bech32, bloom, `convertHex` are linear.
`DecodeCashAddress` is linear EXCEPT for one loop: `prefix += string(lowerCase(str[i]))` (address.go:1048)
builds the prefix by repeated string concatenation, `1 + 2 + … + P` byte copies (and that many bytes of
short-lived strings) for a prefix of `P` characters — and `P` is attacker-chosen up to `len - 2` when
`DecodeCashAddress` is called directly. So `cost_DecodeCashAddress` is `5·len + 3 + P(P+5)/2`, the
quadratic term is attained (`cost_DecodeCashAddress_concat_lower`), and the linear bound holds with the
concatenation charged as one unit (`cost_DecodeCashAddress_iterations`: what a `strings.Builder` would
cost) or for bounded prefixes (`cost_DecodeCashAddress_bounded_prefix`). This is within C08's "at most
quadratic"; it is reported because the audit expected "linear".

All bounds are stated as `2 * cost ≤ …` where halves occur. Names are prefixed `cost_`.
-/
namespace Bch.Props.C08
open Bch Bch.Model Bch.Proofs.Checked Bch.Proofs.CheckedAddr Bch.Proofs.CheckedBech32 Bch.Proofs.CheckedCost

/-! ## 20. the cost functions count the loops of the transcriptions -/

/-- Every loop of the checked transcriptions concerned is the generic early-exit loop run on an explicit
body — the SAME body whose executions the cost functions count (`scanCost := forCost (scanBody str) …`
etc.). 16 loops: CashAddr scan / prefix / values; Base58 digits (downward) / leading ones; `toLowerASCII`;
bech32 `toBytes`, `toChars`, `integers`, the two of `bech32HrpExpand`, polymod inner and outer, the
character loop; bloom `matches` / `add`. -/
theorem cost_loops_are_the_transcriptions :
    (∀ str fuel i st, scanC str fuel i st = forC (scanBody str) Except.ok fuel i st) ∧
    (∀ str fuel i acc, prefixC str fuel i acc = forC (prefixBody str) id fuel i acc) ∧
    (∀ str ps fuel i v, valuesC str ps fuel i v = forC (valuesBody str ps) some fuel i v) ∧
    (∀ tbl b fuel answer j,
      decodeLoopC tbl b fuel answer j = downC (decodeBody tbl b) (fun st => some st.1) fuel (answer, j)) ∧
    (∀ b fuel i nz, zerosLoopC b fuel nz = forC (zerosBody b) id fuel i nz) ∧
    (∀ fuel i b, toLowerLoopC fuel i b = forC toLowerBody id fuel i b) ∧
    (∀ chars fuel i d, toBytesLoopC chars fuel i d = forC (toBytesBody chars) some fuel i d) ∧
    (∀ g data r, toCharsLoopG g data r = rangeC (toCharsBody g) some data r) ∧
    (∀ rest i ints, intsLoopC rest i ints = rangeC intsBody (·.2) rest (i, ints)) ∧
    (∀ hrp fuel i v, hrpHiLoopC hrp fuel i v = forC (hrpHiBody hrp) id fuel i v) ∧
    (∀ hrp fuel i v, hrpLoLoopC hrp fuel i v = forC (hrpLoBody hrp) id fuel i v) ∧
    (∀ b fuel i chk, polyInnerC b fuel i chk = forC (polyInnerBody b) id fuel i chk) ∧
    (∀ values chk, polymodLoopC values chk = rangeC polymodBody id values chk) ∧
    (∀ bech fuel i, charLoopC bech fuel i = forC (charBody bech) (fun _ => false) fuel i ()) ∧
    (∀ m data fuel i, matchesLoopC m data fuel i = forC (matchesBody m data) (fun _ => true) fuel i ()) ∧
    (∀ tweak data fuel i bits, addLoopC tweak data fuel i bits = forC (addBody tweak data) id fuel i bits) :=
  ⟨scanC_loop, prefixC_loop, valuesC_loop, decodeLoopC_loop, zerosLoopC_loop, toLowerLoopC_loop,
   toBytesLoopC_loop, toCharsLoopG_loop, intsLoopC_loop, hrpHiLoopC_loop, hrpLoLoopC_loop, polyInnerC_loop,
   polymodLoopC_loop, charLoopC_loop, matchesLoopC_loop, addLoopC_loop⟩

/-- The ghost counter of a loop whose iterations weigh at most `W` is at most `fuel · W`; in particular a
loop charged one unit per iteration costs at most its fuel (`len - i`). -/
theorem cost_loop_le {ρ σ : Type} (body : Nat → σ → Except Fault (Step ρ σ)) (w : Nat → σ → Nat) (W : Nat)
    (hw : ∀ i s, w i s ≤ W) (fuel i : Nat) (s : σ) : forCost body w fuel i s ≤ fuel * W :=
  forCost_le body w W hw fuel i s

/-- the inner loop of `convertBits` (address.go:1094): the model-level twin `cbEmitCost` counts exactly the
words `cbEmit` appends -/
theorem cost_cbEmit_twin (tb maxv fuel : Nat) (st : CashAddr.CB) :
    (CashAddr.cbEmit tb maxv fuel st).ret.length = st.ret.length + cbEmitCost tb maxv fuel st :=
  cbEmit_cost tb maxv fuel st

/-! ## 21. `DecodeCashAddress`, `checkDecodeCashAddress` -/

/-- **Steps of `DecodeCashAddress`.** `5·len + 3` for the scan loop, `make`, the values loop and the checksum
(`expandPrefix`, `cat`, one `polyMod` step per symbol), plus `P(P+5)/2` for the loop that builds the prefix
by string concatenation, `P = prefixLen str` the position of the colon (`0` if the scan rejects the string;
otherwise `P < len`). Every string. -/
theorem cost_DecodeCashAddress (str : Bytes) :
    2 * DecodeCashAddressCost str ≤ 10 * str.length + 6 + prefixLen str * (prefixLen str + 5) ∧
    (prefixLen str = 0 ∨ prefixLen str < str.length) :=
  ⟨DecodeCashAddressCost_le str, prefixLen_lt str⟩

/-- … hence at most quadratic in the length of the string, -/
theorem cost_DecodeCashAddress_quadratic (str : Bytes) :
    2 * DecodeCashAddressCost str ≤ str.length ^ 2 + 13 * str.length + 6 := by
  have h := DecodeCashAddressCost_le str
  rcases prefixLen_lt str with h0 | h0
  · rw [h0] at h; nlinarith
  · nlinarith

/-- … linear for prefixes of bounded length (the registered prefixes have at most 12 characters), -/
theorem cost_DecodeCashAddress_bounded_prefix (str : Bytes) (K : Nat) (hK : prefixLen str ≤ K) :
    2 * DecodeCashAddressCost str ≤ 10 * str.length + 6 + K * (K + 5) := by
  have h := DecodeCashAddressCost_le str
  have : prefixLen str * (prefixLen str + 5) ≤ K * (K + 5) := Nat.mul_le_mul hK (by omega)
  omega

/-- … and linear, `6·len + 3`, when a concatenation is charged ONE unit (every loop iteration = 1): the
number of loop iterations and bulk copies other than the concatenations. -/
theorem cost_DecodeCashAddress_iterations (str : Bytes) :
    DecodeCashAddressCostG false str ≤ 6 * str.length + 3 :=
  DecodeCashAddressCostG_false_le str

/-- LOWER BOUND: the quadratic term is real. On the `n + 3`-byte string `a…a:q` (`n + 1` letters) the cost
is at least `(n+1)(n+6)/2`: no bound `c·len + c'` holds for `DecodeCashAddressCost`. -/
theorem cost_DecodeCashAddress_concat_lower (n : Nat) :
    (longPrefix n).length = n + 3 ∧ (n + 1) * (n + 6) ≤ 2 * DecodeCashAddressCost (longPrefix n) :=
  ⟨longPrefix_length n, DecodeCashAddressCost_longPrefix n⟩

/-- **Steps of `checkDecodeCashAddress`**: `DecodeCashAddress`, then `convertBits(data, 5, 8, false)` (at
most `4·len`: one iteration per input symbol in two loops, one per output byte in two loops) and two
primitives. -/
theorem cost_checkDecodeCashAddress (input : Bytes) :
    2 * checkDecodeCashAddressCost input
      ≤ 18 * input.length + 6 + prefixLen input * (prefixLen input + 5) :=
  checkDecodeCashAddressCost_le input

theorem cost_checkDecodeCashAddress_quadratic (input : Bytes) :
    2 * checkDecodeCashAddressCost input ≤ input.length ^ 2 + 21 * input.length + 6 := by
  have h := checkDecodeCashAddressCost_le input
  rcases prefixLen_lt input with h0 | h0
  · rw [h0] at h; nlinarith
  · nlinarith

theorem cost_checkDecodeCashAddress_iterations (input : Bytes) :
    checkDecodeCashAddressCostG false input ≤ 10 * input.length + 3 :=
  checkDecodeCashAddressCostG_false_le input

/-- **Allocation of `DecodeCashAddress`** (elements, final sizes): the prefix string (`P`), `values`
(`len - 1 - P`), `expandPrefix`'s `P + 1` bytes and the `len` bytes `cat` appends into — at most `3·len`;
all sizes are lengths of parts of the input, none is a number read from it. -/
theorem cost_alloc_DecodeCashAddress (str : Bytes) : DecodeCashAddressAlloc str ≤ 3 * str.length :=
  DecodeCashAddressAlloc_le str

/-- **Allocation of `checkDecodeCashAddress`**: in addition `convertBits`' `uintArr` (one word per symbol),
`ret` and `dataArr` (`5n/8` each) — at most `6·len` in all. -/
theorem cost_alloc_checkDecodeCashAddress (input : Bytes) : checkDecodeCashAddressAlloc input ≤ 6 * input.length :=
  checkDecodeCashAddressAlloc_le input

/-- The short-lived strings of the concatenation loop (`prefix[:1]`, `prefix[:2]`, …) add up to
`P(P+1)/2` bytes over the run — cumulative garbage, at most `P` bytes of it live at a time; on `a…a:q` that is
`(n+1)(n+2)/2`. -/
theorem cost_alloc_concat_garbage (str : Bytes) (n : Nat) :
    prefixConcatGarbage str = prefixLen str * (prefixLen str + 1) / 2 ∧
    prefixConcatGarbage (longPrefix n) = (n + 1) * (n + 2) / 2 := by
  refine ⟨rfl, ?_⟩
  unfold prefixConcatGarbage prefixLen
  rw [scan_longPrefix]

/-! ## 22. Base58: `Decode`, `CheckDecode`, `DecodeWIF`, `NewKeyFromString`, `DecodeAddress` -/

/-- **Steps of `base58.Decode`**: QUADRATIC. Iteration `t` of the digit loop multiplies and adds numbers of
up to `t + 2` bytes (U5: `scratch.Mul(j, scratch)`, `answer.Add`, `j.Mul(j, 58)`), `Σ (3t + 9)`; then
`answer.Bytes()`, the leading-'1' loop, `make`, `copy`, linear. Every string. -/
theorem cost_base58_Decode (b : Bytes) :
    2 * Base58DecodeCost b ≤ 3 * b.length ^ 2 + 23 * b.length + 8 :=
  Base58DecodeCost_le b

/-- the digit loop alone: at most `len` iterations (and, with `answer, j < 256^k` at its start, at most
`Σ_{t<fuel} (3(k+t) + 6)` units) -/
theorem cost_base58_Decode_loop (tbl : List UInt8) (b : Bytes) (fuel k : Nat) (st : Nat × Nat)
    (h1 : st.1 < 256 ^ k) (h2 : st.2 < 256 ^ k) :
    decodeLoopIters tbl b fuel st ≤ fuel ∧
    2 * decodeLoopCost tbl b fuel st ≤ fuel * (6 * k + 3 * fuel + 9) :=
  ⟨decodeLoopIters_le tbl b fuel st, decodeLoopCost_le tbl b fuel st k h1 h2⟩

/-- **Steps of `base58.CheckDecode`**: `Decode`, then the double hash of the body (U4) and the copy of the
payload, at most `2·len + 3`. -/
theorem cost_base58_CheckDecode (H : Bytes → Bytes) (s : Bytes) :
    2 * CheckDecodeCost H s ≤ 3 * s.length ^ 2 + 27 * s.length + 14 :=
  CheckDecodeCost_le H s

/-- **Steps of `DecodeWIF`**: `Decode` of the WHOLE string (the length test comes after it), then at most 75
units on 37 or 38 decoded bytes. -/
theorem cost_DecodeWIF (H : Bytes → Bytes) (s : Bytes) :
    2 * DecodeWIFCost H s ≤ 3 * s.length ^ 2 + 23 * s.length + 158 :=
  DecodeWIFCost_le H s

/-- **Steps of `NewKeyFromString`**: `Decode` of the whole string, then at most 125 units on 82 decoded bytes. -/
theorem cost_NewKeyFromString {Pt : Type} (X : HDKey.HDExt Pt) (s : Bytes) :
    2 * NewKeyFromStringCost X s ≤ 3 * s.length ^ 2 + 23 * s.length + 258 :=
  NewKeyFromStringCost_le X s

/-- **Steps of `DecodeAddress`**, every string, EVERY network record, every parameter pack: the prefix test
and `toLowerASCII` (twice), two `checkDecodeCashAddress` attempts on strings of at most `2·len` bytes (the
concatenation loop of each is within the quadratic term), and the hex or
Base58Check tail. (Crude on the CashAddr side: the bound allows the prefix part of an attempt string the
whole `2·len`; remark, not proved here: it is at most `max(len(bchPrefix), len(slpPrefix)) ≤ len - 2`.) -/
theorem cost_DecodeAddress (X : Address.Ext) (addr : Bytes) (net : Address.Net) :
    2 * DecodeAddressCost X addr net ≤ 11 * addr.length ^ 2 + 155 * addr.length + 46 :=
  DecodeAddressCost_le X addr net

/-- **Allocation** behind Base58: `Decode` allocates `tmpval` and `val`, at most `len` bytes each (its three
`big.Int`s stay below `256^(len+1)`); `CheckDecode` copies the payload; `DecodeWIF` creates a 32-byte
scalar; `NewKeyFromString` returns sub-slices; `DecodeAddress` adds the two prefix strings, `[]byte(s)` /
`string(b)` / the concatenation of `toLowerASCII` (twice) and the allocations of two CashAddr attempts. All
linear, all sizes are lengths of parts of the input. -/
theorem cost_alloc_base58 (H : Bytes → Bytes) (X : Address.Ext) (s : Bytes) (net : Address.Net) :
    Base58DecodeAlloc s ≤ 2 * s.length ∧
    CheckDecodeAlloc H s ≤ 3 * s.length ∧
    DecodeWIFAlloc s ≤ 2 * s.length + 32 ∧
    NewKeyFromStringAlloc s ≤ 2 * s.length ∧
    DecodeAddressAlloc X s net ≤ 39 * s.length :=
  ⟨Base58DecodeAlloc_le s, CheckDecodeAlloc_le H s,
   by have := Base58DecodeAlloc_le s; unfold DecodeWIFAlloc; omega,
   Base58DecodeAlloc_le s, DecodeAddressAlloc_le X s net⟩

/-! ## 23. bech32 `Decode` / `Encode` -/

/-- **Steps of `bech32.Decode`**: linear, `44·len + 7` (the worst path is the wrong-checksum branch, which
recomputes the checksum for the error message; a polymod step is 6 units); and since strings longer than 90
bytes are rejected first, at most 3967 whatever the input. -/
theorem cost_bech32_Decode (bech : Bytes) :
    Bech32DecodeCost bech ≤ 44 * bech.length + 7 ∧ Bech32DecodeCost bech ≤ 3967 :=
  ⟨Bech32DecodeCost_le bech, Bech32DecodeCost_const bech⟩

/-- **Steps of `bech32.Encode`**: linear in `len(hrp) + len(data)` (no length limit on this side). -/
theorem cost_bech32_Encode (hrp data : Bytes) :
    Bech32EncodeCost hrp data ≤ 21 * hrp.length + 16 * data.length + 106 :=
  Bech32EncodeCost_le hrp data

/-- **Allocation** of bech32 `Decode` / `Encode`: the lower/upper-case copies, `decoded`, `integers`, the
expanded prefix and the `append` targets of the checksum routines, `combined`, the `toChars` buffer, the
result string. -/
theorem cost_alloc_bech32 (bech hrp data : Bytes) :
    Bech32DecodeAlloc bech ≤ 12 * bech.length + 29 ∧
    Bech32EncodeAlloc hrp data ≤ 7 * hrp.length + 7 * data.length + 40 :=
  ⟨Bech32DecodeAlloc_le bech, Bech32EncodeAlloc_le hrp data⟩

/-! ## 24. bloom `matches` / `add` -/

/-- **Steps of `matches`**: the nil and empty-array tests, then `HashFuncs` iterations of
`1 + (len(data) + 1)` (one `MurmurHash3` over `data` each). `HashFuncs` is a field of the loaded message —
a number READ from the wire —, so the bound is `nHash · (len + 2)`; under the wire limit
`MaxFilterLoadHashFuncs = 50` it is `50·len + 102`. -/
theorem cost_bloom_matches (f : Bloom.Filter) (data : Bytes) :
    (∀ nH, (∀ m, f = some m → m.nHash ≤ nH) → MatchesCost f data ≤ 2 + nH * (data.length + 2)) ∧
    ((∀ m, f = some m → m.nHash ≤ 50) → MatchesCost f data ≤ 50 * data.length + 102) := by
  refine ⟨fun nH h => MatchesCost_le f data nH h, fun h => ?_⟩
  have := MatchesCost_le f data 50 h
  omega

/-- **Steps of `add`**: the same. -/
theorem cost_bloom_add (f : Bloom.Filter) (data : Bytes) :
    (∀ nH, (∀ m, f = some m → m.nHash ≤ nH) → addCost f data ≤ 2 + nH * (data.length + 2)) ∧
    ((∀ m, f = some m → m.nHash ≤ 50) → addCost f data ≤ 50 * data.length + 102) := by
  refine ⟨fun nH h => addCost_le f data nH h, fun h => ?_⟩
  have := addCost_le f data 50 h
  omega

/-- **Allocation** of `matches` / `add`: none (the bit array is read and updated in place; `add` keeps its
length: `Bloom.setBit_length`). -/
theorem cost_alloc_bloom (f : Bloom.Filter) (data : Bytes) (m : Bloom.Msg) :
    bloomAlloc f data = 0 ∧ (Bloom.addMsg m data).bits.length = m.bits.length := by
  refine ⟨rfl, ?_⟩
  unfold Bloom.addMsg
  split
  · rfl
  · simp only
    generalize List.range m.nHash = l
    generalize m.bits = bits
    induction l generalizing bits with
    | nil => rfl
    | cons i l ih => rw [List.foldl_cons, ih, Proofs.Bloom.setBit_length]

/-! ## 25. jsonpb `convertHex` -/

/-- **Steps of `convertHex`** — COST OF THE MODEL `JsonHex.convertHex`, which `convertHexC_eq_model` (C08.lean)
proves the checked transcription equal to; `convertHexCost` follows the model's four mutually recursive
functions equation by equation (one unit per `convertHex` call and per `range` iteration, `len(s) + 1` per
converted string). Linear in the size of the tree: its nodes plus the bytes of its string values. The
function allocates nothing itself (maps and slices are updated in place; the converter's output is the
converter's). -/
theorem cost_convertHex (j : JsonHex.J) : convertHexCost j + 1 ≤ 3 * jsize j :=
  convertHexCost_le j

/-! ## 26. all of them -/

/-- STEP and ALLOCATION bounds for every string parser of the library: quadratic (with explicit constants)
for everything that goes through Base58 and for the prefix-concatenation loop of `DecodeCashAddress`, linear
for the rest; every allocation linear in the input length. `n` is the length of the input string. -/
theorem C08_cost_all :
    (∀ str, 2 * DecodeCashAddressCost str ≤ str.length ^ 2 + 13 * str.length + 6) ∧
    (∀ str, DecodeCashAddressCostG false str ≤ 6 * str.length + 3) ∧
    (∀ s, 2 * checkDecodeCashAddressCost s ≤ s.length ^ 2 + 21 * s.length + 6) ∧
    (∀ s, checkDecodeCashAddressCostG false s ≤ 10 * s.length + 3) ∧
    (∀ b, 2 * Base58DecodeCost b ≤ 3 * b.length ^ 2 + 23 * b.length + 8) ∧
    (∀ H s, 2 * CheckDecodeCost H s ≤ 3 * s.length ^ 2 + 27 * s.length + 14) ∧
    (∀ H s, 2 * DecodeWIFCost H s ≤ 3 * s.length ^ 2 + 23 * s.length + 158) ∧
    (∀ {Pt : Type} (X : HDKey.HDExt Pt) s, 2 * NewKeyFromStringCost X s ≤ 3 * s.length ^ 2 + 23 * s.length + 258) ∧
    (∀ X addr net, 2 * DecodeAddressCost X addr net ≤ 11 * addr.length ^ 2 + 155 * addr.length + 46) ∧
    (∀ bech, Bech32DecodeCost bech ≤ 44 * bech.length + 7) ∧
    (∀ hrp data, Bech32EncodeCost hrp data ≤ 21 * hrp.length + 16 * data.length + 106) ∧
    (∀ f data, (∀ m, f = some m → m.nHash ≤ 50) → MatchesCost f data ≤ 50 * data.length + 102) ∧
    (∀ f data, (∀ m, f = some m → m.nHash ≤ 50) → addCost f data ≤ 50 * data.length + 102) ∧
    (∀ j, convertHexCost j + 1 ≤ 3 * jsize j) ∧
    -- allocation
    (∀ str, DecodeCashAddressAlloc str ≤ 3 * str.length) ∧
    (∀ s, checkDecodeCashAddressAlloc s ≤ 6 * s.length) ∧
    (∀ s, Base58DecodeAlloc s ≤ 2 * s.length) ∧
    (∀ H s, CheckDecodeAlloc H s ≤ 3 * s.length) ∧
    (∀ s, DecodeWIFAlloc s ≤ 2 * s.length + 32) ∧
    (∀ s, NewKeyFromStringAlloc s ≤ 2 * s.length) ∧
    (∀ X s net, DecodeAddressAlloc X s net ≤ 39 * s.length) ∧
    (∀ bech, Bech32DecodeAlloc bech ≤ 12 * bech.length + 29) ∧
    (∀ hrp data, Bech32EncodeAlloc hrp data ≤ 7 * hrp.length + 7 * data.length + 40) ∧
    (∀ f data, bloomAlloc f data = 0) :=
  ⟨cost_DecodeCashAddress_quadratic, cost_DecodeCashAddress_iterations,
   cost_checkDecodeCashAddress_quadratic, cost_checkDecodeCashAddress_iterations,
   cost_base58_Decode, cost_base58_CheckDecode, cost_DecodeWIF, fun X s => cost_NewKeyFromString X s,
   cost_DecodeAddress,
   fun b => (cost_bech32_Decode b).1, cost_bech32_Encode,
   fun f d => (cost_bloom_matches f d).2, fun f d => (cost_bloom_add f d).2, cost_convertHex,
   cost_alloc_DecodeCashAddress, cost_alloc_checkDecodeCashAddress,
   fun s => Base58DecodeAlloc_le s, fun H s => CheckDecodeAlloc_le H s,
   fun s => by have := Base58DecodeAlloc_le s; unfold DecodeWIFAlloc; omega,
   fun s => Base58DecodeAlloc_le s, fun X s net => DecodeAddressAlloc_le X s net,
   fun b => Bech32DecodeAlloc_le b, fun h d => Bech32EncodeAlloc_le h d, fun _ _ => rfl⟩

/-! ### non-vacuity: the cost functions evaluated on concrete inputs (tests, not the claim)

Each line gives the value of a cost function and, in the comment, the value of its bound there. -/
section examples

/-- the specification vector (all-zero hash, P2PKH, mainnet), 54 bytes, prefix of 11 -/
def cost_vecCash : Bytes := Bytes.ofString "bitcoincash:qqqqqqqqqqqqqqqqqqqqqqqqqqqqqqqqqqfnhks603"
/-- a legacy address (Base58Check with the toy hash of `addr_Xtoy`), 33 bytes -/
def cost_vecLegacy : Bytes := Bytes.ofString "1GvdqXEAMbSARrubpNP44Vqz4kr6N8FWv"

-- `DecodeCashAddress`: 361 steps — the bound (10·54 + 6 + 11·16)/2 = 361 is attained;
-- 284 with concatenations at one unit (bound 6·54 + 3 = 327); 119 elements allocated (bound 162)
example : cost_vecCash.length = 54 ∧ prefixLen cost_vecCash = 11 ∧
    DecodeCashAddressCost cost_vecCash = 361 ∧ DecodeCashAddressCostG false cost_vecCash = 284 ∧
    DecodeCashAddressAlloc cost_vecCash = 119 := by decide +kernel
-- `checkDecodeCashAddress`: 474 steps (bound (18·54 + 6 + 176)/2 = 577), 195 elements (bound 324)
example : checkDecodeCashAddressCost cost_vecCash = 474 ∧ checkDecodeCashAddressAlloc cost_vecCash = 195 := by
  decide +kernel
-- the quadratic term: 98 letters, ":q" — 100 bytes, 5549 steps (quadratic bound (100² + 1300 + 6)/2 = 5653;
-- the linear part 5·100 + 3 is 503), 4851 bytes of short-lived prefix strings
example : (longPrefix 97).length = 100 ∧ DecodeCashAddressCost (longPrefix 97) = 5549 ∧
    prefixConcatGarbage (longPrefix 97) = 4851 := by decide +kernel
-- hypothesis of `cost_DecodeCashAddress_bounded_prefix` with `K = 12` (the longest registered prefix)
example : prefixLen cost_vecCash ≤ 12 := by decide +kernel
-- hypotheses of `cost_loop_le` (unit weights, `W = 1`) and `cost_base58_Decode_loop` (the initial state
-- `answer = 0`, `j = 1` with `k = 1`)
example : ∀ (i : Nat) (s : CashAddr.Scan), (fun (_ : Nat) (_ : CashAddr.Scan) => 1) i s ≤ 1 :=
  fun _ _ => Nat.le_refl _
example : ((0, 1) : Nat × Nat).1 < 256 ^ 1 ∧ ((0, 1) : Nat × Nat).2 < 256 ^ 1 := by decide
-- a ghost counter stops where its loop exits: "ab cd" is rejected at the blank, in the third iteration
-- (and the counted loop is the transcription's: `scanC` returns the error there)
example : scanCost [97, 98, 32, 99, 100] 5 0 {} = 3 ∧
    DecodeCashAddressCost [97, 98, 32, 99, 100] = 3 ∧
    (match scanC [97, 98, 32, 99, 100] 5 0 {} with
     | .ok (.error .unexpectedChar) => true
     | _ => false) = true := by decide +kernel

-- Base58 `Decode` on 33 bytes: 1462 steps (bound (3·33² + 23·33 + 8)/2 = 2017), 49 bytes (bound 66);
-- `CheckDecode`: 1515 (bound 2086), 69 bytes (bound 99)
example : cost_vecLegacy.length = 33 ∧ Base58DecodeCost cost_vecLegacy = 1462 ∧
    Base58DecodeAlloc cost_vecLegacy = 49 ∧
    CheckDecodeCost addr_Xtoy.sha256d cost_vecLegacy = 1515 ∧
    CheckDecodeAlloc addr_Xtoy.sha256d cost_vecLegacy = 69 := by decide +kernel
-- 32 times 'z' (no valid WIF: the whole string is decoded before its length is looked at): 1388 steps for
-- `Decode` and for `DecodeWIF` (bound (3·32² + 23·32 + 8)/2 = 1908); doubling the length to 64 multiplies the
-- cost by 3.6: 5021 (bound 6884)
example : Base58DecodeCost (List.replicate 32 122) = 1388 ∧
    DecodeWIFCost (fun _ => List.replicate 32 7) (List.replicate 32 122) = 1388 ∧
    Base58DecodeCost (List.replicate 64 122) = 5021 := by decide +kernel
-- `DecodeAddress`: the legacy address goes through both CashAddr attempts and Base58Check: 1888 steps
-- (bound (11·33² + 155·33 + 46)/2 = 8570), 249 elements (bound 1287); the CashAddr vector: 501 steps
example : DecodeAddressCost addr_Xtoy cost_vecLegacy Address.mainNet = 1888 ∧
    DecodeAddressAlloc addr_Xtoy cost_vecLegacy Address.mainNet = 249 ∧
    DecodeAddressCost addr_Xtoy cost_vecCash Address.mainNet = 501 := by decide +kernel

-- bech32, 45 bytes: a valid lower-case string 772 steps, the same in upper case 818 (one more string
-- comparison), with a wrong checksum 1295 (the checksum is recomputed for the error message) — bound
-- 44·45 + 7 = 1987; 230 resp. 389 elements allocated (bound 569);
-- `Encode` of the same data: 743 steps — the bound is 21·6 + 16·32 + 106 = 744 —, 306 elements (bound 306)
example : Bech32DecodeCost (Bytes.ofString "abcdef1qpzry9x8gf2tvdw0s3jn54khce6mua7lmqqqxw") = 772 ∧
    Bech32DecodeCost (Bytes.ofString "ABCDEF1QPZRY9X8GF2TVDW0S3JN54KHCE6MUA7LMQQQXW") = 818 ∧
    Bech32DecodeCost (Bytes.ofString "abcdef1qpzry9x8gf2tvdw0s3jn54khce6mua7lmqqqxx") = 1295 ∧
    Bech32DecodeAlloc (Bytes.ofString "abcdef1qpzry9x8gf2tvdw0s3jn54khce6mua7lmqqqxw") = 230 ∧
    Bech32DecodeAlloc (Bytes.ofString "abcdef1qpzry9x8gf2tvdw0s3jn54khce6mua7lmqqqxx") = 389 ∧
    Bech32EncodeCost (Bytes.ofString "abcdef") ((List.range 32).map UInt8.ofNat) = 743 ∧
    Bech32EncodeAlloc (Bytes.ofString "abcdef") ((List.range 32).map UInt8.ofNat) = 306 := by decide +kernel

-- bloom: 5 hash functions, 8 bytes of data, all bits set: 52 steps — the bound 2 + 5·(8 + 2) is attained;
-- the hypothesis `nHash ≤ 50` holds for this message
example : MatchesCost (some ⟨List.replicate 16 0xff, 5, 0, 0⟩) [1, 2, 3, 4, 5, 6, 7, 8] = 52 ∧
    addCost (some ⟨List.replicate 16 0, 5, 0, 0⟩) [1, 2, 3, 4, 5, 6, 7, 8] = 52 ∧
    (∀ m, (some ⟨List.replicate 16 0xff, 5, 0, 0⟩ : Bloom.Filter) = some m → m.nHash ≤ 50) := by
  refine ⟨by decide +kernel, by decide +kernel, ?_⟩
  intro m h; cases h; decide
-- a query that fails at the first hash function stops there: 12 steps
example : MatchesCost (some ⟨List.replicate 16 0, 5, 0, 0⟩) [1, 2, 3, 4, 5, 6, 7, 8] = 12 := by decide +kernel

-- `convertHex` on {"a":"\1\2\3\4","b":["\1\2",1],"c":[{"d":null}]}: 21 steps, size 14 (bound 3·14 = 42)
example : convertHexCost (.obj [([97], .str [1, 2, 3, 4]), ([98], .arr [.str [1, 2], .num 1]),
      ([99], .arr [.obj [([100], .null)]])]) = 21 ∧
    jsize (.obj [([97], .str [1, 2, 3, 4]), ([98], .arr [.str [1, 2], .num 1]),
      ([99], .arr [.obj [([100], .null)]])]) = 14 := by decide +kernel

end examples

end Bch.Props.C08
