import Bch.Proofs.CoinSet
/-
C19 — coin selection returns only valid selections and coin-set totals never drift.

Model: `Bch.Model.CoinSet` (`/repo/coinset/coins.go`). Vocabulary from `Bch.Proofs.CoinSet`:

* `sumV l`  = `(l.map Coin.value).sum`,  `sumVA l` = `(l.map Coin.valueAge).sum`
* `Inv s`   = `s.totalValue = sumV s.coins ∧ s.totalValueAge = sumVA s.coins`
* `run s ops` = the state after applying the operations `ops` (with `stepOp`) to `s`
* `SubMultiset s l` = `∃ p, p.Perm l ∧ s.Sublist p` — `s` uses every element of `l` at most as often as it occurs
  in `l` ("distinct coins taken from the offered list"); implies `count`-wise ≤, `⊆`, and `Nodup` if `l.Nodup`.

`NewMsgTxWithInputCoins` is `CS.txInputs` (the outpoints, in order; the remaining fields of the inputs are compared by the harness).
-/
namespace Bch.Props.C19
open Bch Bch.Model.TxSort Bch.Model.CoinSet Bch.Proofs.TxSort Bch.Proofs.CoinSet

/-! ### totals never drift (histories) -/

/-- **C19_totals.** After *any* sequence of pushes, pops and shifts starting from the empty set, the two running
    totals are the sums over the current contents. -/
theorem C19_totals (ops : List Op) :
    (run {} ops).totalValue = ((run {} ops).coins.map Coin.value).sum ∧
    (run {} ops).totalValueAge = ((run {} ops).coins.map Coin.valueAge).sum :=
  run_inv {} ops inv_empty

/-- **C19_tx_spends_contents.** After any history the transaction built from the set has exactly one input per coin
    of the current contents, in the order of the contents (push appends, pop drops the last, shift the first — see
    `C19_ops`), and so its inputs' values add up to the running total. -/
theorem C19_tx_spends_contents (ops : List Op) :
    (run {} ops).txInputs = (run {} ops).coins.map Coin.id ∧
    (run {} ops).txInputs.length = (run {} ops).coins.length ∧
    ((run {} ops).coins.map Coin.value).sum = (run {} ops).totalValue := by
  refine ⟨rfl, by simp [CS.txInputs], (C19_totals ops).1.symm⟩

/-- the invariant is inductive: it is preserved by every single operation from every state satisfying it -/
theorem C19_totals_step (s : CS) (o : Op) (h : Inv s) : Inv (stepOp s o).1 := stepOp_inv s o h

example : Inv {} := inv_empty

/-- what the three operations do to the contents: push appends; pop removes and returns the last coin; shift
    removes and returns the first; on the empty set pop and shift return `none` and change nothing -/
theorem C19_ops (s : CS) (c : Coin) :
    (s.push c).coins = s.coins ++ [c] ∧
    (s.pop.1.coins = s.coins.dropLast ∧ s.pop.2 = s.coins.getLast?) ∧
    (s.shift.1.coins = s.coins.tail ∧ s.shift.2 = s.coins.head?) ∧
    (s.coins = [] → s.pop = (s, none) ∧ s.shift = (s, none)) := by
  refine ⟨rfl, ?_, ?_, fun h => ⟨pop_of_nil s h, shift_of_nil s h⟩⟩
  · rcases List.eq_nil_or_concat s.coins with hn | ⟨l, x, hl⟩
    · rw [pop_of_nil s hn]; simp [hn]
    · rw [List.concat_eq_append] at hl
      rw [pop_of_snoc s l x hl]; simp [hl]
  · cases hc : s.coins with
    | nil => rw [shift_of_nil s hc]; simp [hc]
    | cons x l => rw [shift_of_cons s x l hc]; simp

/-- `CS.ofList l` contains exactly `l`, with the right totals -/
theorem C19_ofList (l : List Coin) :
    (CS.ofList l).coins = l ∧ (CS.ofList l).totalValue = sumV l ∧ (CS.ofList l).totalValueAge = sumVA l := by
  rw [ofList_eq]; exact ⟨rfl, rfl, rfl⟩

-- a history with pops/shifts on the empty set, a pop after pushes, and a shift
example : run {} [.pop, .shift, .push ⟨1, 5, 2⟩, .push ⟨2, 7, 0⟩, .push ⟨3, 1, 1⟩, .shift, .pop, .pop, .pop] = {} ∧
    run {} [.push ⟨1, 5, 2⟩, .push ⟨2, 7, 3⟩, .push ⟨3, 1, 1⟩, .shift] = ⟨[⟨2, 7, 3⟩, ⟨3, 1, 1⟩], 8, 22⟩ := by
  decide

/-! ### min-index: the shortest qualifying prefix -/

/-- **C19_minIndex.** The selector succeeds with `cs` iff `cs` is the shortest non-empty prefix of the offered list,
    of at most `maxInputs` coins, whose total equals the target or exceeds it by at least `minChange`; the totals
    of `cs` are the sums over that prefix. -/
theorem C19_minIndex (maxInputs minChange target : Int) (coins : List Coin) (cs : CS) :
    minIndex maxInputs minChange target coins = some cs ↔
      ∃ k, 1 ≤ k ∧ k ≤ coins.length ∧ (k : Int) ≤ maxInputs ∧
        satisfiesTargetValue target minChange (sumV (coins.take k)) = true ∧
        (∀ j, 1 ≤ j → j < k → satisfiesTargetValue target minChange (sumV (coins.take j)) = false) ∧
        cs.coins = coins.take k ∧ cs.totalValue = sumV (coins.take k) ∧
        cs.totalValueAge = sumVA (coins.take k) := by
  rw [minIndex_some_iff]
  constructor
  · rintro ⟨k, ⟨h1, h2, h3, h4, h5⟩, rfl⟩
    exact ⟨k, h1, h2, h3, h4, h5, rfl, rfl, rfl⟩
  · rintro ⟨k, h1, h2, h3, h4, h5, h6, h7, h8⟩
    refine ⟨k, ⟨h1, h2, h3, h4, h5⟩, ?_⟩
    cases cs; simp_all

/-- failure iff no prefix of at most `maxInputs` coins qualifies -/
theorem C19_minIndex_none (maxInputs minChange target : Int) (coins : List Coin) :
    minIndex maxInputs minChange target coins = none ↔
      ∀ k, 1 ≤ k → k ≤ coins.length → (k : Int) ≤ maxInputs →
        satisfiesTargetValue target minChange (sumV (coins.take k)) = false :=
  minIndex_none_iff maxInputs minChange target coins

/-- consequences for a successful min-index selection: a prefix of the offer (so every position is used at most
    once), at most `maxInputs` coins, totals exact, target rule met -/
theorem C19_minIndex_valid (maxInputs minChange target : Int) (coins : List Coin) (cs : CS)
    (h : minIndex maxInputs minChange target coins = some cs) :
    cs.coins <+: coins ∧ cs.coins ≠ [] ∧ (cs.coins.length : Int) ≤ maxInputs ∧ Inv cs ∧
    (cs.totalValue = target ∨ cs.totalValue ≥ target + minChange) := by
  obtain ⟨k, h1, h2, h3, h4, _, h6, h7, h8⟩ := (C19_minIndex _ _ _ _ _).1 h
  refine ⟨h6 ▸ List.take_prefix _ _, ?_, ?_, ⟨by rw [h7, h6], by rw [h8, h6]⟩, ?_⟩
  · intro hnil
    have := congrArg List.length h6
    rw [hnil, List.length_take] at this
    simp at this; omega
  · rw [h6, List.length_take]; omega
  · rw [h7]
    unfold satisfiesTargetValue at h4
    simp only [Bool.or_eq_true, beq_iff_eq, decide_eq_true_eq] at h4
    exact h4

example : minIndex 3 2 10 [⟨0, 4, 1⟩, ⟨1, 7, 1⟩, ⟨2, 1, 1⟩, ⟨3, 5, 1⟩] =
      some ⟨[⟨0, 4, 1⟩, ⟨1, 7, 1⟩, ⟨2, 1, 1⟩], 12, 12⟩ ∧   -- 4+7 = 11 is neither 10 nor ≥ 12
    minIndex 2 2 10 [⟨0, 4, 1⟩, ⟨1, 7, 1⟩, ⟨2, 1, 1⟩, ⟨3, 5, 1⟩] = none ∧
    minIndex 0 0 0 [] = none := by decide

/-! ### min-number and max-value-age: the same scan on a sorted copy -/

/-- **C19_minNumber.** The selection is the shortest qualifying prefix of the offer sorted by descending value;
    that sorted list is a permutation of the offer and non-increasing in value. -/
theorem C19_minNumber (maxInputs minChange target : Int) (coins : List Coin) (cs : CS) :
    ((sortByValueDesc coins).Perm coins ∧ (sortByValueDesc coins).Pairwise (fun a b => b.value ≤ a.value)) ∧
    (minNumber maxInputs minChange target coins = some cs ↔
      ∃ k, 1 ≤ k ∧ k ≤ coins.length ∧ (k : Int) ≤ maxInputs ∧
        satisfiesTargetValue target minChange (sumV ((sortByValueDesc coins).take k)) = true ∧
        (∀ j, 1 ≤ j → j < k →
          satisfiesTargetValue target minChange (sumV ((sortByValueDesc coins).take j)) = false) ∧
        cs.coins = (sortByValueDesc coins).take k ∧ cs.totalValue = sumV ((sortByValueDesc coins).take k) ∧
        cs.totalValueAge = sumVA ((sortByValueDesc coins).take k)) := by
  refine ⟨⟨sortByValueDesc_perm coins, sortByValueDesc_sorted coins⟩, ?_⟩
  unfold minNumber
  rw [C19_minIndex, (sortByValueDesc_perm coins).length_eq]

/-- **C19_maxValueAge.** The same for the offer sorted by descending value-age. -/
theorem C19_maxValueAge (maxInputs minChange target : Int) (coins : List Coin) (cs : CS) :
    ((sortByValueAgeDesc coins).Perm coins ∧
      (sortByValueAgeDesc coins).Pairwise (fun a b => b.valueAge ≤ a.valueAge)) ∧
    (maxValueAge maxInputs minChange target coins = some cs ↔
      ∃ k, 1 ≤ k ∧ k ≤ coins.length ∧ (k : Int) ≤ maxInputs ∧
        satisfiesTargetValue target minChange (sumV ((sortByValueAgeDesc coins).take k)) = true ∧
        (∀ j, 1 ≤ j → j < k →
          satisfiesTargetValue target minChange (sumV ((sortByValueAgeDesc coins).take j)) = false) ∧
        cs.coins = (sortByValueAgeDesc coins).take k ∧
        cs.totalValue = sumV ((sortByValueAgeDesc coins).take k) ∧
        cs.totalValueAge = sumVA ((sortByValueAgeDesc coins).take k)) := by
  refine ⟨⟨sortByValueAgeDesc_perm coins, sortByValueAgeDesc_sorted coins⟩, ?_⟩
  unfold maxValueAge
  rw [C19_minIndex, (sortByValueAgeDesc_perm coins).length_eq]

/-- failure of the two sorted selectors iff no prefix of the sorted list qualifies -/
theorem C19_sorted_none (maxInputs minChange target : Int) (coins : List Coin) :
    (minNumber maxInputs minChange target coins = none ↔
      ∀ k, 1 ≤ k → k ≤ coins.length → (k : Int) ≤ maxInputs →
        satisfiesTargetValue target minChange (sumV ((sortByValueDesc coins).take k)) = false) ∧
    (maxValueAge maxInputs minChange target coins = none ↔
      ∀ k, 1 ≤ k → k ≤ coins.length → (k : Int) ≤ maxInputs →
        satisfiesTargetValue target minChange (sumV ((sortByValueAgeDesc coins).take k)) = false) := by
  unfold minNumber maxValueAge
  rw [C19_minIndex_none, C19_minIndex_none, (sortByValueDesc_perm coins).length_eq,
    (sortByValueAgeDesc_perm coins).length_eq]
  exact ⟨Iff.rfl, Iff.rfl⟩

/-- validity of the two sorted selectors: a sub-multiset of the offer (a sublist of a permutation of it: every
    offered coin used at most once), at most `maxInputs` coins, exact totals, target rule met -/
theorem C19_sorted_valid (maxInputs minChange target : Int) (coins : List Coin) (cs : CS)
    (h : minNumber maxInputs minChange target coins = some cs ∨
         maxValueAge maxInputs minChange target coins = some cs) :
    (∃ p, p.Perm coins ∧ cs.coins.Sublist p) ∧ (coins.Nodup → cs.coins.Nodup) ∧ (∀ c ∈ cs.coins, c ∈ coins) ∧
    (cs.coins.length : Int) ≤ maxInputs ∧ Inv cs ∧
    (cs.totalValue = target ∨ cs.totalValue ≥ target + minChange) := by
  have key : ∀ l : List Coin, l.Perm coins → minIndex maxInputs minChange target l = some cs →
      (∃ p, p.Perm coins ∧ cs.coins.Sublist p) ∧ (coins.Nodup → cs.coins.Nodup) ∧
      (∀ c ∈ cs.coins, c ∈ coins) ∧ (cs.coins.length : Int) ≤ maxInputs ∧ Inv cs ∧
      (cs.totalValue = target ∨ cs.totalValue ≥ target + minChange) := by
    intro l hl hm
    obtain ⟨hpre, _, hlen, hinv, hsat⟩ := C19_minIndex_valid _ _ _ _ _ hm
    have hsm : SubMultiset cs.coins coins := ⟨l, hl, hpre.sublist⟩
    exact ⟨hsm, hsm.nodup, hsm.subset, hlen, hinv, hsat⟩
  rcases h with h | h
  · exact key _ (sortByValueDesc_perm coins) h
  · exact key _ (sortByValueAgeDesc_perm coins) h

example : minNumber 2 0 10 [⟨0, 4, 1⟩, ⟨1, 7, 1⟩, ⟨2, 1, 9⟩, ⟨3, 5, 2⟩] =
      some ⟨[⟨1, 7, 1⟩, ⟨3, 5, 2⟩], 12, 17⟩ ∧
    maxValueAge 3 0 10 [⟨0, 4, 1⟩, ⟨1, 7, 1⟩, ⟨2, 1, 9⟩, ⟨3, 5, 2⟩] =
      some ⟨[⟨3, 5, 2⟩, ⟨2, 1, 9⟩, ⟨1, 7, 1⟩], 13, 26⟩ ∧
    minNumber 1 0 10 [⟨0, 4, 1⟩, ⟨1, 7, 1⟩] = none := by decide

/-! ### min-priority -/

/-- **C19_minPriority.** For every recursion budget `fuel`: if the min-priority selector succeeds then
    (1) the selection is a sub-multiset of the offer — each offered coin used at most once; with pairwise distinct
        offered coins it is duplicate-free and contained in the offer;
    (2) it has at most `maxInputs` coins;
    (3) its recorded totals are the sums over its coins and the total value equals the target or exceeds it by at
        least `minChange`;
    (4) if no offered coin has a negative value-age, the total value-age is at least `minAvg` per selected coin.
    Clause (4) needs its hypothesis: see `C19_minPriority_negative_valueAge`. -/
theorem C19_minPriority (fuel : Nat) (maxInputs minChange minAvg target : Int) (coins : List Coin) (cs : CS)
    (h : minPriority fuel maxInputs minChange minAvg target coins = some cs) :
    ((∃ p, p.Perm coins ∧ cs.coins.Sublist p) ∧ (coins.Nodup → cs.coins.Nodup) ∧ (∀ c ∈ cs.coins, c ∈ coins)) ∧
    (cs.coins.length : Int) ≤ maxInputs ∧
    (Inv cs ∧ (cs.totalValue = target ∨ cs.totalValue ≥ target + minChange)) ∧
    ((∀ c ∈ coins, 0 ≤ c.valueAge) → minAvg * (cs.coins.length : Int) ≤ cs.totalValueAge) := by
  have hg := minPriority_ok fuel _ _ _ _ _ _ h
  refine ⟨⟨hg.sub, hg.sub.nodup, hg.sub.subset⟩, hg.len, ⟨hg.inv, ?_⟩, hg.avg⟩
  have := hg.sat
  unfold satisfiesTargetValue at this
  simp only [Bool.or_eq_true, beq_iff_eq, decide_eq_true_eq] at this
  exact this

/-- counting form of clause (1): no coin is selected more often than it was offered -/
theorem C19_minPriority_count (fuel : Nat) (maxInputs minChange minAvg target : Int) (coins : List Coin)
    (cs : CS) (h : minPriority fuel maxInputs minChange minAvg target coins = some cs) (c : Coin) :
    cs.coins.count c ≤ coins.count c :=
  (minPriority_ok fuel _ _ _ _ _ _ h).sub.count_le c

/-- the soundness of one level given any sound recursive call (the shape of the induction) -/
theorem C19_minPriority_step (rec : Rec) (hrec : RecOK rec) : RecOK (minPriorityBody rec) :=
  minPriorityBody_ok rec hrec

/-- Without the non-negativity hypothesis clause (4) is false: the extension loop divides with truncation toward
    zero, so a negative total value-age passes the `>= minAvg` check. (Negative confirmations/values are
    representable in the Go `int64` fields but meaningless.) -/
theorem C19_minPriority_negative_valueAge :
    ∃ cs, minPriority 3 2 1 0 10 [⟨0, 10, 0⟩, ⟨1, 1, -1⟩] = some cs ∧
      ¬ (0 * (cs.coins.length : Int) ≤ cs.totalValueAge) :=
  ⟨⟨[⟨0, 10, 0⟩, ⟨1, 1, -1⟩], 11, -1⟩, by decide⟩

-- non-vacuity. (a) success branch: the high coin alone meets the target, the extension loop skips the low coin
-- that would break the change rule (103) and adds the one that keeps it (105); (b), (c) top-up branch: the high
-- coins alone fail, low-priority coins are added through the recursive call; (d) failure
example : minPriority 3 3 5 100 100 [⟨0, 100, 10⟩, ⟨1, 5, 1⟩, ⟨2, 3, 1⟩] =
      some ⟨[⟨0, 100, 10⟩, ⟨1, 5, 1⟩], 105, 1005⟩ ∧
    minPriority 4 3 0 300 20 [⟨0, 10, 1⟩, ⟨1, 10, 100⟩] =
      some ⟨[⟨1, 10, 100⟩, ⟨0, 10, 1⟩], 20, 1010⟩ ∧
    minPriority 6 4 2 4 14 [⟨0, 3, 2⟩, ⟨1, 4, 0⟩, ⟨2, 4, 3⟩, ⟨3, 4, 0⟩, ⟨4, 3, 3⟩] =
      some ⟨[⟨0, 3, 2⟩, ⟨4, 3, 3⟩, ⟨2, 4, 3⟩, ⟨1, 4, 0⟩], 14, 27⟩ ∧
    minPriority 4 1 0 500 20 [⟨0, 10, 1⟩, ⟨1, 10, 100⟩] = none := by decide
example : ([⟨0, 3, 2⟩, ⟨1, 4, 0⟩, ⟨2, 4, 3⟩, ⟨3, 4, 0⟩, ⟨4, 3, 3⟩] : List Coin).Nodup ∧
    ∀ c ∈ ([⟨0, 3, 2⟩, ⟨1, 4, 0⟩, ⟨2, 4, 3⟩, ⟨3, 4, 0⟩, ⟨4, 3, 3⟩] : List Coin), 0 ≤ c.valueAge := by decide

end Bch.Props.C19
