namespace Bch.Props.C19
theorem placeholder : True := trivial
end Bch.Props.C19
