namespace Bch.Props.C06
theorem placeholder : True := trivial
end Bch.Props.C06
