import Bch.Proofs.Base58
import Bch.Proofs.WifPub
/-
C06 — WIF private-key strings round-trip, are canonical and checksum-guarded.

"For every 32-byte private key, network and compression flag, the WIF string decodes back to the same
key bytes, the same flag and the same network identity […]. A string is accepted only if it
Base58-decodes to exactly 37 bytes, or 38 bytes ending in 0x01 before the checksum, whose last four
bytes are the double-SHA256 prefix of the rest, and every accepted string re-encodes to itself."

All theorems are about the executable model `Bch.Model.Wif` (`String`, `DecodeWIF`, `paddedAppend`);
the private scalar is a `Nat` (`D`), the key *bytes* are `Bytes.ofNatBE 32 d`. The double SHA-256 is
an arbitrary function `H`; the only hypothesis ever needed is that it returns at least 4 bytes.
The public-key serialisation clause (`SerializePubKey`) is modelled in `Bch/Model/WifPub.lean` over an
abstract curve (`k ↦ k•G`, compressed and uncompressed point serialisation) and stated at the end of this
file (`C06_pubkey`, `C06_pubkey_roundtrip`).
Proofs are in `Bch/Proofs/Base58.lean`.
-/
namespace Bch.Props.C06
open Bch Bch.Model Bch.Model.Base58 Bch.Model.Wif
open Bch.Proofs.Base58

/-! ### the padding fact (the historically buggy case: keys with leading zero bytes) -/

/-- For every 32-byte key — with any number (0..32) of leading zero bytes — zero-padding the minimal
big-endian form of its value back to 32 bytes restores exactly the key bytes. -/
theorem C06_pad_key : ∀ (dst k : Bytes), k.length = 32 →
    paddedAppend 32 dst (Bytes.ofNatMin (Bytes.toNatBE k)) = dst ++ k :=
  paddedAppend_key

/-- The same for every scalar `d < 2^256`: the padded field is the 32-byte big-endian form of `d`. -/
theorem C06_pad_lt : ∀ (dst : Bytes) (d : Nat), d < 2 ^ 256 →
    paddedAppend 32 dst (Bytes.ofNatMin d) = dst ++ Bytes.ofNatBE 32 d ∧
    (Bytes.ofNatBE 32 d).length = 32 ∧ Bytes.toNatBE (Bytes.ofNatBE 32 d) = d := by
  intro dst d h
  refine ⟨paddedAppend_ofNatMin dst d h, length_ofNatBE _ _, ?_⟩
  rw [toNatBE_ofNatBE, Nat.mod_eq_of_lt (by rwa [← two_pow_256])]

/-- Key bytes ↔ scalar: a 32-byte key is recovered from its value. -/
theorem C06_key_bytes : ∀ k : Bytes, k.length = 32 → Bytes.ofNatBE 32 (Bytes.toNatBE k) = k := by
  intro k hk; rw [← hk]; exact ofNatBE_toNatBE k

/-! ### round trip -/

/-- Every scalar below `2^256`, every net id, both flags: decoding the WIF string gives back the
same `WIF` value. -/
theorem C06_roundtrip_nat : ∀ (H : Bytes → Bytes) (_hH : ∀ x, 4 ≤ (H x).length) (w : WIF),
    w.d < 2 ^ 256 → DecodeWIF H (Wif.String H w) = .ok w :=
  fun H hH w hd => DecodeWIF_String H w hd (hH _)

/-- Every 32-byte key (leading zero bytes included), every net id, both flags: the WIF string
decodes to the same scalar, flag and net id, and the decoded key bytes are the original bytes. -/
theorem C06_roundtrip : ∀ (H : Bytes → Bytes) (_hH : ∀ x, 4 ≤ (H x).length) (k : Bytes),
    k.length = 32 → ∀ (netID : UInt8) (compress : Bool),
    DecodeWIF H (Wif.String H ⟨Bytes.toNatBE k, compress, netID⟩)
      = .ok ⟨Bytes.toNatBE k, compress, netID⟩ ∧
    Bytes.ofNatBE 32 (Bytes.toNatBE k) = k := by
  intro H hH k hk netID compress
  refine ⟨DecodeWIF_String H _ ?_ (hH _), C06_key_bytes k hk⟩
  show Bytes.toNatBE k < 2 ^ 256
  rw [two_pow_256, ← hk]; exact toNatBE_lt k

/-- The range condition is exact: a scalar `≥ 2^256` (which no 32-byte key has) does not round-trip. -/
theorem C06_roundtrip_iff : ∀ (H : Bytes → Bytes) (_hH : ∀ x, 4 ≤ (H x).length) (w : WIF),
    DecodeWIF H (Wif.String H w) = .ok w ↔ w.d < 2 ^ 256 :=
  fun H hH w => ⟨lt_of_DecodeWIF_ok H _ w, fun hd => DecodeWIF_String H w hd (hH _)⟩

/-! ### acceptance -/

/-- Accepted iff the Base58 decoding has 37 bytes, or 38 with byte 33 equal to 1, and its last four
bytes are the hash prefix of the rest; the result is then: scalar = bytes 1..32, flag = (38 bytes),
net id = byte 0. No hypothesis on `H`. -/
theorem C06_accept_iff : ∀ (H : Bytes → Bytes) (s : Bytes) (w : WIF),
    DecodeWIF H s = .ok w ↔
      ((Decode s).length = 37 ∨ ((Decode s).length = 38 ∧ (Decode s).getD 33 0 = 1)) ∧
      (Decode s).drop ((Decode s).length - 4)
        = (H ((Decode s).take ((Decode s).length - 4))).take 4 ∧
      w = ⟨Bytes.toNatBE (((Decode s).drop 1).take 32), decide ((Decode s).length = 38),
            (Decode s).headD 0⟩ :=
  DecodeWIF_ok_iff_tail

/-- Structural form: accepted with result `w` iff the decoding is
`netID :: key(32 bytes) ++ [1 if compressed] ++ 4-byte hash prefix of all that`, `w.d` being the value
of `key`. -/
theorem C06_accept_iff_struct : ∀ (H : Bytes → Bytes) (s : Bytes) (w : WIF),
    DecodeWIF H s = .ok w ↔ ∃ key : Bytes, key.length = 32 ∧ w.d = Bytes.toNatBE key ∧
      Decode s = (w.netID :: key ++ (if w.compress then [1] else []))
                  ++ (H (w.netID :: key ++ (if w.compress then [1] else []))).take 4 ∧
      ((H (w.netID :: key ++ (if w.compress then [1] else []))).take 4).length = 4 :=
  DecodeWIF_ok_iff

/-- `ErrMalformedPrivateKey` exactly when the length/marker condition fails. -/
theorem C06_malformed_iff : ∀ (H : Bytes → Bytes) (s : Bytes),
    DecodeWIF H s = .error .malformed ↔
      ¬ ((Decode s).length = 37 ∨ ((Decode s).length = 38 ∧ (Decode s).getD 33 0 = 1)) :=
  DecodeWIF_malformed_iff

/-- `ErrChecksumMismatch` exactly when the format is fine and the last four bytes differ from the
hash prefix of the rest. -/
theorem C06_checksum_iff : ∀ (H : Bytes → Bytes) (s : Bytes),
    DecodeWIF H s = .error .checksum ↔
      ((Decode s).length = 37 ∨ ((Decode s).length = 38 ∧ (Decode s).getD 33 0 = 1)) ∧
      (Decode s).drop ((Decode s).length - 4)
        ≠ (H ((Decode s).take ((Decode s).length - 4))).take 4 :=
  DecodeWIF_checksum_iff

/-- A string containing a byte outside the Base58 alphabet is malformed. -/
theorem C06_foreign : ∀ (H : Bytes → Bytes) (s : Bytes), (∃ c ∈ s, b58 c = none) →
    DecodeWIF H s = .error .malformed := by
  intro H s h
  rw [DecodeWIF_malformed_iff, Decode_foreign s h]
  simp [wifFormatOk]

/-- Every accepted string carries a scalar below `2^256`. -/
theorem C06_accepted_range : ∀ (H : Bytes → Bytes) (s : Bytes) (w : WIF),
    DecodeWIF H s = .ok w → w.d < 2 ^ 256 :=
  lt_of_DecodeWIF_ok

/-! ### canonicity -/

/-- Every accepted string re-encodes to itself. Strongest form: no hypothesis on `H` and none on the
characters of `s` (a foreign character makes the decoding empty, hence rejected; Base58 is a
bijection on the rest, C07). -/
theorem C06_canonical : ∀ (H : Bytes → Bytes) (s : Bytes) (w : WIF),
    DecodeWIF H s = .ok w → Wif.String H w = s :=
  String_of_DecodeWIF_ok

/-! ### non-vacuity -/
section
local notation "H0" => (fun x : Bytes => x ++ [1, 2, 3, 4])

example : ∀ x, 4 ≤ (H0 x).length := by intro x; simp

/-- a 32-byte key with 31 leading zero bytes -/
example : (List.replicate 31 0 ++ [7] : Bytes).length = 32 := by decide
example : DecodeWIF H0 (Wif.String H0 ⟨Bytes.toNatBE (List.replicate 31 0 ++ [7]), true, 0x80⟩)
    = .ok ⟨7, true, 0x80⟩ :=
  (C06_roundtrip H0 (by intro x; simp) (List.replicate 31 0 ++ [7]) (by decide) 0x80 true).1
/-- the all-zero key (scalar 0, 32 bytes of padding) -/
example : DecodeWIF H0 (Wif.String H0 ⟨0, false, 0xef⟩) = .ok ⟨0, false, 0xef⟩ :=
  C06_roundtrip_nat H0 (by intro x; simp) ⟨0, false, 0xef⟩ (by decide)
example : paddedAppend 32 [0x80] (Bytes.ofNatMin 7) = 0x80 :: (List.replicate 31 0 ++ [7]) := by
  have h := C06_pad_key [0x80] (List.replicate 31 0 ++ [7]) (by decide)
  have hv : Bytes.toNatBE (List.replicate 31 0 ++ [7]) = 7 := by decide
  rwa [hv] at h

/-- a scalar of 33 bytes does not round-trip -/
example : DecodeWIF H0 (Wif.String H0 ⟨2 ^ 256, false, 0x80⟩) ≠ .ok ⟨2 ^ 256, false, 0x80⟩ := by
  intro h
  exact absurd ((C06_roundtrip_iff H0 (by intro x; simp) _).mp h) (by decide)

/-- accepted, malformed and checksum-error instances built by hand (37 bytes: net 5, key 0…0 9; the
first four bytes of `H0 x` are the first four bytes of `x`, here `[5,0,0,0]`) -/
example : DecodeWIF H0 (Encode (5 :: (List.replicate 31 0 ++ [9]) ++ [5, 0, 0, 0])) = .ok ⟨9, false, 5⟩ := by
  rw [C06_accept_iff, Decode_Encode]; decide
example : DecodeWIF H0 (Encode (5 :: (List.replicate 31 0 ++ [9]) ++ [5, 0, 0, 1])) = .error .checksum := by
  rw [C06_checksum_iff, Decode_Encode]; decide
/-- 38 bytes whose marker byte is 2: malformed even with a "correct" checksum -/
example : DecodeWIF H0 (Encode (5 :: (List.replicate 31 0 ++ [9]) ++ [2] ++ [5, 0, 0, 0])) = .error .malformed := by
  rw [C06_malformed_iff, Decode_Encode]; decide
/-- … and with marker 1 it is accepted as a compressed key -/
example : DecodeWIF H0 (Encode (5 :: (List.replicate 31 0 ++ [9]) ++ [1] ++ [5, 0, 0, 0])) = .ok ⟨9, true, 5⟩ := by
  rw [C06_accept_iff, Decode_Encode]; decide
/-- canonicity applied to the accepted instance above -/
example : Wif.String H0 ⟨9, false, 5⟩ = Encode (5 :: (List.replicate 31 0 ++ [9]) ++ [5, 0, 0, 0]) :=
  C06_canonical H0 _ _ (by rw [C06_accept_iff, Decode_Encode]; decide)
example : DecodeWIF H0 [] = .error .malformed := by
  rw [C06_malformed_iff]; simp [Decode, decodeNat, leadingOnes, ofNatMin_zero]
end

/-! ### public-key serialisation (`SerializePubKey`) -/

/-- `SerializePubKey` is the compressed serialisation of `d•G` (33 bytes) when the flag is set and the
uncompressed one (65 bytes) otherwise. The only laws needed are the lengths of the two serialisations on
the points `k•G`. -/
theorem C06_pubkey {Pt : Type} (C : Curve Pt)
    (hC : ∀ k, (C.serC (C.mulG k)).length = 33) (hU : ∀ k, (C.serU (C.mulG k)).length = 65) (w : WIF) :
    (w.compress = true →
      SerializePubKey C w = C.serC (C.mulG w.d) ∧ (SerializePubKey C w).length = 33) ∧
    (w.compress = false →
      SerializePubKey C w = C.serU (C.mulG w.d) ∧ (SerializePubKey C w).length = 65) := by
  constructor
  · intro h
    have e : SerializePubKey C w = C.serC (C.mulG w.d) := by simp [SerializePubKey, h]
    exact ⟨e, by rw [e]; exact hC _⟩
  · intro h
    have e : SerializePubKey C w = C.serU (C.mulG w.d) := by simp [SerializePubKey, h]
    exact ⟨e, by rw [e]; exact hU _⟩

/-- Decoding a WIF string and serialising the public key gives the same bytes as serialising the key
the string was made from: for every 32-byte key, net id and flag (`C06_roundtrip`), and for every scalar
below `2^256`. -/
theorem C06_pubkey_roundtrip {Pt : Type} (C : Curve Pt) (H : Bytes → Bytes)
    (hH : ∀ x, 4 ≤ (H x).length) :
    (∀ w : WIF, w.d < 2 ^ 256 →
      (DecodeWIF H (Wif.String H w)).map (SerializePubKey C) = .ok (SerializePubKey C w)) ∧
    (∀ k : Bytes, k.length = 32 → ∀ (netID : UInt8) (compress : Bool),
      (DecodeWIF H (Wif.String H ⟨Bytes.toNatBE k, compress, netID⟩)).map (SerializePubKey C)
        = .ok (SerializePubKey C ⟨Bytes.toNatBE k, compress, netID⟩)) := by
  constructor
  · intro w hd
    rw [C06_roundtrip_nat H hH w hd]; rfl
  · intro k hk netID compress
    rw [(C06_roundtrip H hH k hk netID compress).1]; rfl

/-- non-vacuity of the laws of `C06_pubkey`: the secp256k1 instance used by the differential driver -/
example : (∀ k, (secp.serC (secp.mulG k)).length = 33) ∧ (∀ k, (secp.serU (secp.mulG k)).length = 65) :=
  ⟨Bch.Proofs.WifPub.secp_serC_length, Bch.Proofs.WifPub.secp_serU_length⟩

/-- test: the key 1 — the compressed / uncompressed encodings of the generator `G` -/
example :
    SerializePubKey secp ⟨1, true, 0x80⟩
      = 0x02 :: Bytes.ofNatBE 32 0x79BE667EF9DCBBAC55A06295CE870B07029BFCDB2DCE28D959F2815B16F81798 ∧
    SerializePubKey secp ⟨1, false, 0x80⟩
      = 0x04 :: (Bytes.ofNatBE 32 0x79BE667EF9DCBBAC55A06295CE870B07029BFCDB2DCE28D959F2815B16F81798 ++
                 Bytes.ofNatBE 32 0x483ADA7726A3C4655DA4FBFC0E1108A8FD17B448A68554199C47D08FFB10D4B8) := by
  decide +kernel

end Bch.Props.C06
