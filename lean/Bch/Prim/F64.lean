/-
  Bch.Prim.F64 — executable reference model of IEEE-754 binary64 arithmetic on bit patterns.

  A float is its 64-bit pattern (`UInt64`).  All operations are pure, total and exact:
  operands are decoded to `m * 2^e` with big integers, the exact result is computed, and a single
  rounding (round-to-nearest-even, gradual underflow, overflow to ±Inf) produces the result.  This is
  what Go's `float64` does on amd64 (SSE2, no FMA fusion, no extended precision).

  Core Lean only (no Mathlib, no Std).  Lean's `Float` is never used.

  Caveats
  * NaN payloads/signs are not modelled: every NaN *result* is the canonical quiet NaN
    `0x7FF8000000000001` (Go's `math.NaN()`); `roundHalfAway` returns NaN inputs unchanged.
  * `roundRat`'s `negZero` is used only when the exact value is zero; a non-zero value that
    underflows to zero keeps the sign of the exact value (IEEE behaviour).
  * `decode` forgets the sign of zero (`-0 ↦ (0, -1074)`); use `isNeg`.
-/

namespace Bch.Prim.F64

/-! ## Bit-level helpers -/

def signMask : UInt64 := 0x8000000000000000
def expMask  : UInt64 := 0x7FF0000000000000
def fracMask : UInt64 := 0x000FFFFFFFFFFFFF
def absMask  : UInt64 := 0x7FFFFFFFFFFFFFFF
def posInf   : UInt64 := 0x7FF0000000000000
def negInf   : UInt64 := 0xFFF0000000000000
def negZero  : UInt64 := 0x8000000000000000
/-- canonical quiet NaN (same bits as Go's `math.NaN()`). -/
def nan      : UInt64 := 0x7FF8000000000001

def isNaN (a : UInt64) : Bool := (a &&& expMask) == expMask && (a &&& fracMask) != 0
def isInf (a : UInt64) : Bool := (a &&& absMask) == posInf
def isNeg (a : UInt64) : Bool := (a &&& signMask) != 0
def isZero (a : UInt64) : Bool := (a &&& absMask) == 0
def isFinite (a : UInt64) : Bool := (a &&& expMask) != expMask
def neg (a : UInt64) : UInt64 := a ^^^ signMask

@[inline] def signedZero (s : Bool) : UInt64 := if s then negZero else 0
@[inline] def signedInf (s : Bool) : UInt64 := if s then negInf else posInf

/-- Magnitude of a finite float as `(m, e)` meaning `m * 2^e` (`m < 2^53`, `e ≥ -1074`).
Meaningless for NaN/Inf. -/
def decodeAbs (a : UInt64) : Nat × Int :=
  let ex := ((a >>> 52) &&& 0x7FF).toNat
  let fr := (a &&& fracMask).toNat
  if ex == 0 then (fr, -1074) else (fr + 4503599627370496, (ex : Int) - 1075)

/-- Exact value of a finite float as `(m, e)` meaning `m * 2^e`; `none` for NaN/Inf. -/
def decode (a : UInt64) : Option (Int × Int) :=
  if isFinite a then
    let (m, e) := decodeAbs a
    some (if isNeg a then -(m : Int) else (m : Int), e)
  else none

/-- number of bits of `n` (0 for 0). -/
@[inline] def bitLen (n : Nat) : Nat := if n == 0 then 0 else Nat.log2 n + 1

/-! ## The single rounding step -/

/-- Round `M * 2^e` (plus, if `sticky`, a positive amount strictly smaller than `2^e`) to the
nearest-even binary64 with sign `sg`.  `sticky` must only be set when `M ≥ 2^54` or
`e < -1074` (so that at least one bit is always shifted out). -/
def roundScaled (sg : Bool) (M : Nat) (e : Int) (sticky : Bool) : UInt64 :=
  if M == 0 then signedZero sg
  else
    let bl : Int := (bitLen M : Nat)
    if e + bl > 1025 then signedInf sg       -- value ≥ 2^1024
    else
      let u : Int := max (e + bl - 53) (-1074)    -- exponent of the result's ulp
      let mant : Nat :=
        if u ≤ e then M <<< (e - u).toNat
        else
          let sh := (u - e).toNat
          let q := M >>> sh
          let r := M - (q <<< sh)
          let half : Nat := 1 <<< (sh - 1)
          if r > half || (r == half && (sticky || q % 2 == 1)) then q + 1 else q
      -- mant ≤ 2^53; a carry to 2^53 or from subnormal to 2^52 is absorbed by the addition
      let bits := (u + 1074).toNat * 4503599627370496 + mant
      let r := if bits ≥ 0x7FF0000000000000 then posInf else UInt64.ofNat bits
      if sg then r ||| signMask else r

/-- Round `(n / d) * 2^e` (`d > 0`) with sign `sg`. -/
def roundQuot (sg : Bool) (n d : Nat) (e : Int) : UInt64 :=
  if n == 0 then signedZero sg
  else if d == 0 then nan
  else
    let E : Int := (bitLen n : Int) - (bitLen d : Int)   -- 2^(E-1) < n/d < 2^(E+1)
    -- scale so the quotient has ≥ 63 bits, but never look below 2^-1080
    let s : Int := min (64 - E) (e + 1080)
    if s ≥ 0 then
      let num := n <<< s.toNat
      roundScaled sg (num / d) (e - s) (num % d != 0)
    else
      let den := d <<< (-s).toNat
      roundScaled sg (n / den) (e - s) (n % den != 0)

/-- Round the exact rational `num / den` (`den > 0`) to nearest-even binary64.  `negZero` gives the
sign of the result when `num = 0`.  (`den = 0` yields NaN.) -/
def roundRat (num : Int) (den : Nat) (negZero : Bool := false) : UInt64 :=
  if den == 0 then nan
  else if num == 0 then signedZero negZero
  else roundQuot (num < 0) num.natAbs den 0

/-- Go's `float64(int64)` (correctly rounded; defined for every `Int`). -/
def ofInt (i : Int) : UInt64 := roundScaled (i < 0) i.natAbs 0 false

/-! ## Arithmetic -/

def mul (a b : UInt64) : UInt64 :=
  if isNaN a || isNaN b then nan
  else
    let sg := isNeg a != isNeg b
    if isInf a then (if isZero b then nan else signedInf sg)
    else if isInf b then (if isZero a then nan else signedInf sg)
    else
      let (m1, e1) := decodeAbs a
      let (m2, e2) := decodeAbs b
      roundScaled sg (m1 * m2) (e1 + e2) false

def div (a b : UInt64) : UInt64 :=
  if isNaN a || isNaN b then nan
  else
    let sg := isNeg a != isNeg b
    if isInf a then (if isInf b then nan else signedInf sg)
    else if isInf b then signedZero sg
    else if isZero b then (if isZero a then nan else signedInf sg)
    else
      let (m1, e1) := decodeAbs a
      let (m2, e2) := decodeAbs b
      roundQuot sg m1 m2 (e1 - e2)

def add (a b : UInt64) : UInt64 :=
  if isNaN a || isNaN b then nan
  else if isInf a then (if isInf b && isNeg a != isNeg b then nan else a)
  else if isInf b then b
  else
    let (m1, e1) := decodeAbs a
    let (m2, e2) := decodeAbs b
    let e := min e1 e2
    let x1 : Int := ((m1 <<< (e1 - e).toNat : Nat) : Int)
    let x2 : Int := ((m2 <<< (e2 - e).toNat : Nat) : Int)
    let s : Int := (if isNeg a then -x1 else x1) + (if isNeg b then -x2 else x2)
    if s == 0 then signedZero (isNeg a && isNeg b)
    else roundScaled (s < 0) s.natAbs e false

def sub (a b : UInt64) : UInt64 :=
  if isNaN b then nan else add a (neg b)

/-- total order key for non-NaN values (−0 and +0 both map to 0). -/
@[inline] def ordKey (a : UInt64) : Int :=
  let k : Int := ((a &&& absMask).toNat : Int)
  if isNeg a then -k else k

/-- IEEE `<`. -/
def lt (a b : UInt64) : Bool :=
  if isNaN a || isNaN b then false else ordKey a < ordKey b

/-- IEEE `==` (NaN ≠ NaN, −0 == +0). -/
def eq (a b : UInt64) : Bool :=
  if isNaN a || isNaN b then false else ordKey a == ordKey b

/-- truncate toward zero; `none` for NaN/Inf. -/
def truncToInt (a : UInt64) : Option Int :=
  if isFinite a then
    let (m, e) := decodeAbs a
    let t : Nat := if e ≥ 0 then m <<< e.toNat else m >>> (-e).toNat
    some (if isNeg a then -(t : Int) else (t : Int))
  else none

/-- Go `math.Round` (bit-for-bit transcription). -/
def roundHalfAway (a : UInt64) : UInt64 :=
  let e := (a >>> 52) &&& 0x7FF
  if e < 1023 then
    let b := a &&& signMask
    if e == 1022 then b ||| 0x3FF0000000000000 else b
  else if e < 1075 then
    let e' := e - 1023
    let b := a + ((0x0008000000000000 : UInt64) >>> e')
    b &&& ~~~(fracMask >>> e')
  else a

/-! ## math.Pow10 -/

/-- `pow10tab[i] = 1e(i)` for `i < 32`, correctly rounded. -/
def pow10tab : Array UInt64 := (Array.range 32).map fun i => roundRat ((10 : Int) ^ i) 1
/-- `pow10postab32[i] = 1e(32*i)` for `i < 10`. -/
def pow10postab32 : Array UInt64 := (Array.range 10).map fun i => roundRat ((10 : Int) ^ (32 * i)) 1
/-- `pow10negtab32[i] = 1e-(32*i)` for `i < 11`. -/
def pow10negtab32 : Array UInt64 := (Array.range 11).map fun i => roundRat 1 (10 ^ (32 * i))

/-- Go `math.Pow10`. -/
def pow10 (n : Int) : UInt64 :=
  if 0 ≤ n && n ≤ 308 then
    let k := n.toNat
    mul (pow10postab32.getD (k / 32) nan) (pow10tab.getD (k % 32) nan)
  else if -323 ≤ n && n ≤ 0 then
    let k := (-n).toNat
    div (pow10negtab32.getD (k / 32) nan) (pow10tab.getD (k % 32) nan)
  else if n > 0 then posInf
  else 0

/-! ## strconv.FormatFloat(x, 'f', prec, 64) -/

/-- decimal string of `N * 10^(-p)` with exactly `p` fractional digits. -/
def fixedStr (N : Nat) (p : Nat) : String :=
  let ds := Nat.toDigits 10 N
  if p == 0 then String.ofList ds
  else
    let ds := if ds.length ≤ p then List.replicate (p + 1 - ds.length) '0' ++ ds else ds
    let k := ds.length - p
    String.ofList (ds.take k ++ '.' :: ds.drop k)

/-- Digit walk of `roundShortest`.  State: the value `D/W`, the lower/upper halfway bounds `L/W`,
`U/W`, all expressed in units of the current decimal position `10^p`.  Returns `(N, p)` meaning
`N * 10^p`. -/
def shortestLoop (incl : Bool) (W : Nat) : Nat → Nat → Nat → Nat → Int → Nat × Int
  | 0, D, _, _, p => (D / W, p)   -- unreachable: the walk stops once `D/W` is an integer
  | fuel + 1, D, L, U, p =>
    let t := D / W
    let dn := t * W
    let up := dn + W
    -- truncating is admissible iff it stays above (or on, if inclusive) the lower bound
    let okdown := dn > L || (incl && dn == L)
    -- rounding up is admissible iff it stays below (or on, if inclusive) the upper bound
    let okup := up < U || (incl && up == U)
    if okdown && okup then
      -- round to nearest, ties to even
      let r2 := 2 * (D - dn)
      if r2 > W || (r2 == W && t % 2 == 1) then (t + 1, p) else (t, p)
    else if okdown then (t, p)
    else if okup then (t + 1, p)
    else shortestLoop incl W fuel (D * 10) (L * 10) (U * 10) (p - 1)

/-- Shortest decimal `N * 10^p` that uniquely identifies the finite non-zero float `m * 2^e`
(Go `roundShortest` / Ryu shortest). -/
def shortest (m : Nat) (e : Int) : Nat × Int :=
  -- everything in units of 2^(e-2): value 4m, upper halfway 4m+2,
  -- lower halfway 4m-2, or 4m-1 when the lower neighbour is in the next binade down
  let D := 4 * m
  let U := 4 * m + 2
  let L := if m > 4503599627370496 || e == -1074 then 4 * m - 2 else 4 * m - 1
  let e2 := e - 2
  let incl := m % 2 == 0
  -- U < 2^B; start at a decimal position p0 with 10^p0 > U
  let B : Int := (bitLen U : Int) + e2
  let p0 : Int := Int.fdiv (B * 30103) 100000 + 2
  -- scale: value = X * 2^e2 / 10^p0 in units of 10^p0
  let (nmul, dmul) : Nat × Nat :=
    (if e2 ≥ 0 then 1 <<< e2.toNat else 1, if e2 ≥ 0 then 1 else 1 <<< (-e2).toNat)
  let (nmul, dmul) : Nat × Nat :=
    if p0 ≥ 0 then (nmul, dmul * 10 ^ p0.toNat) else (nmul * 10 ^ (-p0).toNat, dmul)
  let (N, p) := shortestLoop incl dmul 1200 (D * nmul) (L * nmul) (U * nmul) p0
  (N, p)

/-- strip trailing decimal zeros of `N` while `p < 0`. -/
def trimZeros : Nat → Nat → Int → Nat × Int
  | 0, N, p => (N, p)
  | fuel + 1, N, p => if p < 0 && N % 10 == 0 then trimZeros fuel (N / 10) (p + 1) else (N, p)

/-- Go `strconv.FormatFloat(x, 'f', prec, 64)`. -/
def formatF (a : UInt64) (prec : Int) : String :=
  if isNaN a then "NaN"
  else if isInf a then (if isNeg a then "-Inf" else "+Inf")
  else
    let (m, e) := decodeAbs a
    let sign := if isNeg a then "-" else ""
    if prec ≥ 0 then
      let p := prec.toNat
      -- N = round-half-even (m * 2^e * 10^p)
      let N : Nat :=
        if e ≥ 0 then (m * 10 ^ p) <<< e.toNat
        else
          let num := m * 10 ^ p
          let sh := (-e).toNat
          let q := num >>> sh
          let r := num - (q <<< sh)
          let half : Nat := 1 <<< (sh - 1)
          if r > half || (r == half && q % 2 == 1) then q + 1 else q
      sign ++ fixedStr N p
    else if m == 0 then sign ++ "0"
    else
      let (N, p) := shortest m e
      if p ≥ 0 then sign ++ String.ofList (Nat.toDigits 10 N) ++ "".pushn '0' p.toNat
      else
        let (N, p) := trimZeros 400 N p
        sign ++ fixedStr N (-p).toNat

/-! ## Regression vectors (all taken from the real Go 1.23 toolchain on amd64) -/

-- near-tie products / quotients
#guard mul 0x3e35798ee2308c39 0x4197d78400000000 == 0x3fdfffffffffffff  -- 4.999999999999999e-09 * 1e8
#guard mul 0x4185798ee2308c3b 0x4197d78400000000 == 0x4330000000000001  -- 45035996.27370497 * 1e8
#guard div 0x430e5c4348894468 0x3f50624dd2f1a9fc == 0x43ada619b4d60ccd  -- 1068211668854925 / 1e-3
#guard mul 0x430e5c4348894468 0x408f400000000000 == 0x43ada619b4d60cce  -- 1068211668854925 * 1e3
#guard add 0x3fb999999999999a 0x3fc999999999999a == 0x3fd3333333333334  -- 0.1 + 0.2
#guard mul 0x3fb999999999999a 0x4008000000000000 == 0x3fd3333333333334  -- 0.1 * 3
#guard sub 0x3fb999999999999a 0x3fc999999999999a == 0xbfb999999999999a
#guard div 0x3fb999999999999a 0x4008000000000000 == 0x3fa1111111111111
#guard mul 0x44b52d02c7e14af6 0x4024000000000000 == 0x44ea784379d99db4  -- 1e23 * 10
-- gradual underflow, overflow, signed zeros, NaN
#guard mul 0x0000000000000001 0x3fe0000000000000 == 0                   -- tie to even -> 0
#guard mul 0x000fffffffffffff 0x3fe0000000000000 == 0x0008000000000000
#guard div 0x000fffffffffffff 0x3ff8000000000000 == 0x000aaaaaaaaaaaaa
#guard mul 0x7fefffffffffffff 0x4000000000000000 == posInf
#guard isNaN (div 0 0) && isNaN (add posInf negInf) && isNaN (mul posInf 0)
#guard div 0x3ff0000000000000 0x8000000000000000 == negInf
#guard add 0x8000000000000000 0x8000000000000000 == 0x8000000000000000
#guard add 0 0x8000000000000000 == 0
#guard sub 0x3ff0000000000000 0x3ff0000000000000 == 0
-- comparisons
#guard lt 0x8000000000000000 0 == false
#guard lt negInf 0xffefffffffffffff == true
#guard lt nan 0x3ff0000000000000 == false
-- int conversions
#guard ofInt 9007199254740993 == 0x4340000000000000
#guard ofInt 9223372036854775807 == 0x43e0000000000000
#guard ofInt (-9223372036854775808) == 0xc3e0000000000000
#guard truncToInt 0xc004000000000000 == some (-2)
#guard truncToInt 0x4341c37937e08000 == some 10000000000000000
#guard truncToInt posInf == none
-- math.Round
#guard roundHalfAway 0x3fdfffffffffffff == 0                            -- 0.49999999999999994
#guard roundHalfAway 0x3fe0000000000000 == 0x3ff0000000000000           -- 0.5 -> 1
#guard roundHalfAway 0xc004000000000000 == 0xc008000000000000           -- -2.5 -> -3
#guard roundHalfAway 0x4330000000000001 == 0x4330000000000001
-- math.Pow10
#guard pow10 (-323) == 2
#guard pow10 (-324) == 0
#guard pow10 308 == 0x7fe1ccf385ebc8a0
#guard pow10 309 == posInf
#guard pow10 23 == 0x44b52d02c7e14af6
#guard pow10 (-5) == 0x3ee4f8b588e368f1
#guard pow10 (-290) == 0x03b8f2b061aea072
#guard pow10 0 == 0x3ff0000000000000
-- roundRat / decode
#guard roundRat 1 10 == 0x3fb999999999999a
#guard roundRat (-1) 3 == 0xbfd5555555555555
#guard roundRat 0 7 true == 0x8000000000000000
#guard decode 0xc004000000000000 == some (-5629499534213120, -51)
#guard decode posInf == none
-- FormatFloat 'f'
#guard formatF 0x3fe0000000000000 0 == "0"                              -- 0.5
#guard formatF 0x3ff8000000000000 0 == "2"                              -- 1.5
#guard formatF 0x4004000000000000 0 == "2"                              -- 2.5
#guard formatF 0x3fc0000000000000 2 == "0.12"                           -- 0.125
#guard formatF 0x3ff0147ae147ae14 2 == "1.00"                           -- 1.005
#guard formatF 0x3f747ae147ae147b 2 == "0.01"                           -- 0.005
#guard formatF 0x3fa70a3d70a3d70a 2 == "0.04"                           -- 0.045
#guard formatF 0x4005666666666666 2 == "2.67"                           -- 2.675
#guard formatF 0x3fb999999999999a 12 == "0.100000000000"
#guard formatF 0x3ff0147ae147ae14 (-1) == "1.005"
#guard formatF 0x444b1ae4d6e2ef50 (-1) == "1000000000000000000000"      -- 1e21
#guard formatF 0x44b52d02c7e14af6 (-1) == "100000000000000000000000"    -- 1e23
#guard formatF 0x3f1a36e2eb1c432d (-1) == "0.0001"
#guard formatF 0x4340000000000001 (-1) == "9007199254740994"
#guard formatF 0x0000000000000001 (-1) == "0." ++ "".pushn '0' 323 ++ "5"
#guard formatF 0x0010000000000000 (-1) == "0." ++ "".pushn '0' 307 ++ "22250738585072014"
#guard formatF 0x8000000000000000 2 == "-0.00"
#guard formatF 0x8000000000000000 (-1) == "-0"
#guard formatF nan (-1) == "NaN"
#guard formatF negInf 3 == "-Inf"
#guard formatF posInf 0 == "+Inf"

end Bch.Prim.F64
