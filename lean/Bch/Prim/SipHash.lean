/-
  SipHash-2-4 (64-bit output), pure / total / executable, core Lean only (no imports).

  Matches the reference implementation (Aumasson & Bernstein) and
  `github.com/aead/siphash` `Sum64`: the 16-byte key is read as two
  little-endian 64-bit words `k0 = key[0..8)`, `k1 = key[8..16)`.
-/

namespace Bch.Prim

namespace SipHash

/-- The four 64-bit lanes of the SipHash internal state. -/
structure State where
  v0 : UInt64
  v1 : UInt64
  v2 : UInt64
  v3 : UInt64
  deriving Repr, DecidableEq, Inhabited

/-- Rotate left by `n` bits; only used with `0 < n < 64`. -/
@[inline] def rotl (x n : UInt64) : UInt64 :=
  (x <<< n) ||| (x >>> (64 - n))

/-- One `SipRound`. -/
def round (s : State) : State :=
  let v0 := s.v0 + s.v1
  let v1 := rotl s.v1 13
  let v1 := v1 ^^^ v0
  let v0 := rotl v0 32
  let v2 := s.v2 + s.v3
  let v3 := rotl s.v3 16
  let v3 := v3 ^^^ v2
  let v0 := v0 + v3
  let v3 := rotl v3 21
  let v3 := v3 ^^^ v0
  let v2 := v2 + v1
  let v1 := rotl v1 17
  let v1 := v1 ^^^ v2
  let v2 := rotl v2 32
  { v0, v1, v2, v3 }

/-- Initial state from the two key words ("somepseudorandomlygeneratedbytes"). -/
def init (k0 k1 : UInt64) : State :=
  { v0 := k0 ^^^ 0x736f6d6570736575
    v1 := k1 ^^^ 0x646f72616e646f6d
    v2 := k0 ^^^ 0x6c7967656e657261
    v3 := k1 ^^^ 0x7465646279746573 }

/-- Absorb one 64-bit message word (c = 2 compression rounds). -/
def compress (s : State) (m : UInt64) : State :=
  let s := round (round { s with v3 := s.v3 ^^^ m })
  { s with v0 := s.v0 ^^^ m }

/-- Finalization (d = 4 rounds) and output. -/
def finalize (s : State) : UInt64 :=
  let s := round (round (round (round { s with v2 := s.v2 ^^^ 0xff })))
  s.v0 ^^^ s.v1 ^^^ s.v2 ^^^ s.v3

/-- Streaming accumulator: lane state `s`, the partially filled little-endian
    word `m`, and the number `n` of bytes consumed so far (mod 2^64; only
    `n % 8` and `n % 256` are ever used). -/
structure Acc where
  s : State
  m : UInt64
  n : UInt64
  deriving Repr, DecidableEq, Inhabited

/-- Feed one message byte. -/
def step (a : Acc) (b : UInt8) : Acc :=
  let i := a.n &&& 7
  let m := a.m ||| (b.toUInt64 <<< (8 * i))
  if i == 7 then
    { s := compress a.s m, m := 0, n := a.n + 1 }
  else
    { s := a.s, m := m, n := a.n + 1 }

/-- Little-endian load of (up to) the first 8 bytes of a list; missing bytes are 0. -/
def le64 (bs : List UInt8) : UInt64 :=
  (bs.take 8).foldr (fun b acc => (acc <<< 8) ||| b.toUInt64) 0

end SipHash

open SipHash in
/-- SipHash-2-4 with 64-bit output under the key `(k0, k1)`. -/
def siphash24 (k0 k1 : UInt64) (msg : List UInt8) : UInt64 :=
  let a := msg.foldl step { s := init k0 k1, m := 0, n := 0 }
  -- last word: the remaining `n % 8` bytes (little-endian), `n % 256` in the top byte
  finalize (compress a.s (a.m ||| (a.n <<< 56)))

open SipHash in
/-- SipHash-2-4 keyed by a 16-byte key (`k0 = LE64 key[0..8)`, `k1 = LE64 key[8..16)`).
    Missing key bytes are treated as 0; bytes beyond the 16th are ignored. -/
def siphash24Key (key : List UInt8) (msg : List UInt8) : UInt64 :=
  siphash24 (le64 key) (le64 (key.drop 8)) msg

/-! ## Test vectors -/

namespace SipHash.Test

/-- `vectors_sip64` from the reference implementation, each 8-byte output read
    as a little-endian `UInt64`: entry `n` is the hash of the `n`-byte message
    `00 01 .. (n-1)` under the key `00 01 .. 0f`. -/
def vectors : List UInt64 := [
  0x726fdb47dd0e0e31, 0x74f839c593dc67fd, 0x0d6c8009d9a94f5a, 0x85676696d7fb7e2d,
  0xcf2794e0277187b7, 0x18765564cd99a68d, 0xcbc9466e58fee3ce, 0xab0200f58b01d137,
  0x93f5f5799a932462, 0x9e0082df0ba9e4b0, 0x7a5dbbc594ddb9f3, 0xf4b32f46226bada7,
  0x751e8fbc860ee5fb, 0x14ea5627c0843d90, 0xf723ca908e7af2ee, 0xa129ca6149be45e5,
  0x3f2acc7f57c29bdb, 0x699ae9f52cbe4794, 0x4bc1b3f0968dd39c, 0xbb6dc91da77961bd,
  0xbed65cf21aa2ee98, 0xd0f2cbb02e3b67c7, 0x93536795e3a33e88, 0xa80c038ccd5ccec8,
  0xb8ad50c6f649af94, 0xbce192de8a85b8ea, 0x17d835b85bbb15f3, 0x2f2e6163076bcfad,
  0xde4daaaca71dc9a5, 0xa6a2506687956571, 0xad87a3535c49ef28, 0x32d892fad841c342,
  0x7127512f72f27cce, 0xa7f32346f95978e3, 0x12e0b01abb051238, 0x15e034d40fa197ae,
  0x314dffbe0815a3b4, 0x027990f029623981, 0xcadcd4e59ef40c4d, 0x9abfd8766a33735c,
  0x0e3ea96b5304a7d0, 0xad0c42d6fc585992, 0x187306c89bc215a9, 0xd4a60abcf3792b95,
  0xf935451de4f21df2, 0xa9538f0419755787, 0xdb9acddff56ca510, 0xd06c98cd5c0975eb,
  0xe612a3cb9ecba951, 0xc766e62cfcadaf96, 0xee64435a9752fe72, 0xa192d576b245165a,
  0x0a8787bf8ecb74b2, 0x81b3e73d20b49b6f, 0x7fa8220ba3b2ecea, 0x245731c13ca42499,
  0xb78dbfaf3a8d83bd, 0xea1ad565322a1a0b, 0x60e61c23a3795013, 0x6606d7e446282b93,
  0x6ca4ecb15c5f91e1, 0x9f626da15c9625f3, 0xe51b38608ef25f57, 0x958a324ceb064572
]

/-- The bytes `00 01 02 ..` (`n` of them, wrapping mod 256). -/
def iota (n : Nat) : List UInt8 := (List.range n).map (·.toUInt8)

/-- The reference key `00 01 .. 0f`. -/
def refKey : List UInt8 := iota 16

/-- A second key / message family, used for cross-checking against
    `github.com/aead/siphash` v1.0.1 (`key[i] = 0xff - 7*i`, `msg[i] = 3*i + 1`). -/
def key2 : List UInt8 := (List.range 16).map fun i => (0xff - 7 * i).toUInt8
def msg2 (n : Nat) : List UInt8 := (List.range n).map fun i => (3 * i + 1).toUInt8

end SipHash.Test

section
open SipHash.Test

#guard vectors.length == 64
-- all 64 official vectors, via both entry points
#guard (List.range 64).map (fun n => siphash24Key refKey (iota n)) == vectors
#guard (List.range 64).map (fun n => siphash24 0x0706050403020100 0x0f0e0d0c0b0a0908 (iota n))
        == vectors
#guard siphash24Key refKey [] == 0x726fdb47dd0e0e31
#guard siphash24Key refKey (iota 15) == 0xa129ca6149be45e5
#guard siphash24Key refKey (iota 16) == 0x3f2acc7f57c29bdb
#guard siphash24Key refKey (iota 31) == 0x32d892fad841c342
#guard siphash24Key refKey (iota 63) == 0x958a324ceb064572

-- Longer inputs; expected values produced by github.com/aead/siphash v1.0.1 `Sum64`.
#guard [64, 100, 255, 256, 257, 1000].map (fun n => siphash24Key refKey (iota n)) ==
  [0xacd2c40b8502cad8, 0x096f3fec85c52a7e, 0xa9c169fec74db21a,
   0x999d0526d2a7bfd7, 0x8a817b8d55b29748, 0xdb9b3ed69e31c9a6]
#guard [0, 1, 7, 8, 9, 15, 16, 31, 63, 64, 100, 255, 256, 257, 1000].map
    (fun n => siphash24Key key2 (msg2 n)) ==
  [0xcb6b648d0ed2e921, 0x19cc60b6eb33332b, 0x79c3945711724689, 0x9370d179800db0ef,
   0x908f92caa83d2488, 0x72008f42f37c2188, 0x87d5b5037666444a, 0x266037bc0e312098,
   0x8559c83f0cfc4607, 0x608040885dcf8127, 0x656048bb178af98e, 0x87b3cac0483376b8,
   0x66e45c9a99c5cf55, 0x869f5df769c06a74, 0xd657d38155e75a32]

-- Short / over-long keys: missing bytes are 0, extra bytes are ignored.
#guard siphash24Key [] (iota 5) == siphash24 0 0 (iota 5)
#guard siphash24Key (iota 9) (iota 5) == siphash24 0x0706050403020100 0x08 (iota 5)
#guard siphash24Key (iota 20) (iota 5) == siphash24Key refKey (iota 5)

end

end Bch.Prim
