/-
  Bch.Prim.Secp256k1 — executable secp256k1 arithmetic over `Nat`.

  Pure, total, import-free.  Everything here is a *model*: plain functions on
  `Nat` / `List UInt8`, no constant-time pretence.  `parsePubKey` mirrors
  `github.com/gcash/bchd@v0.20.0/bchec.ParsePubKey`.

  The curve is  y² = x³ + 7  over  F_p,  p = 2²⁵⁶ − 2³² − 977,  with prime
  group order `n` and cofactor 1.
-/

namespace Bch.Prim.Secp

/-! ## Parameters -/

/-- Field prime `2^256 - 2^32 - 977`. -/
def p : Nat := 0xFFFFFFFFFFFFFFFFFFFFFFFFFFFFFFFFFFFFFFFFFFFFFFFFFFFFFFFEFFFFFC2F

/-- Group order. -/
def n : Nat := 0xFFFFFFFFFFFFFFFFFFFFFFFFFFFFFFFEBAAEDCE6AF48A03BBFD25E8CD0364141

/-- Curve constant `b` in `y² = x³ + b`. -/
def b : Nat := 7

/-- Affine points plus the point at infinity. -/
inductive Point where
  | inf
  | aff (x y : Nat)
  deriving DecidableEq, Repr, Inhabited

def Gx : Nat := 0x79BE667EF9DCBBAC55A06295CE870B07029BFCDB2DCE28D959F2815B16F81798
def Gy : Nat := 0x483ADA7726A3C4655DA4FBFC0E1108A8FD17B448A68554199C47D08FFB10D4B8

/-- Standard generator. -/
def G : Point := .aff Gx Gy

/-! ## Field helpers (all results `< p`) -/

@[inline] def fadd (a c : Nat) : Nat := (a + c) % p
@[inline] def fmul (a c : Nat) : Nat := (a * c) % p
@[inline] def fsqr (a : Nat) : Nat := (a * a) % p
/-- `a - c (mod p)`; correct for arbitrary `a c : Nat`. -/
@[inline] def fsub (a c : Nat) : Nat := (a + (p - c % p)) % p

/-- Worker for `modPow`: scans bits `i-1 … 0` of `e`, most significant first. -/
def modPowAux (bs e m : Nat) : Nat → Nat → Nat
  | 0,     acc => acc
  | i + 1, acc =>
    let acc := (acc * acc) % m
    let acc := if e.testBit i then (acc * bs) % m else acc
    modPowAux bs e m i acc

/-- `b ^ e mod m` by left-to-right square-and-multiply
    (structural on the bit length of `e`).  `modPow _ _ 0 = 0`-ish garbage is
    avoided: for `m = 0` Lean's `% 0` is the identity, so the result is `b ^ e`. -/
def modPow (b e m : Nat) : Nat :=
  modPowAux (b % m) e m (Nat.log2 e + 1) (1 % m)

/-- Inverse mod `p` by Fermat: `a^(p-2) mod p`  (`modInv 0 = 0`). -/
def modInv (a : Nat) : Nat := modPow a (p - 2) p

/-- Square root mod `p` (`p ≡ 3 mod 4`): candidate `a^((p+1)/4)`, checked.
    The argument is reduced mod `p` first; the returned root is `< p`. -/
def sqrtMod (a : Nat) : Option Nat :=
  let a := a % p
  let r := modPow a ((p + 1) / 4) p
  if (r * r) % p == a then some r else none

/-! ## Curve predicate and affine group law -/

/-- `y² = x³ + 7 (mod p)` with both coordinates `< p`; `inf ↦ true`. -/
def onCurve : Point → Bool
  | .inf     => true
  | .aff x y => decide (x < p) && decide (y < p) &&
                ((y * y) % p == (x * x * x + b) % p)

/-- Point negation. -/
def neg : Point → Point
  | .inf     => .inf
  | .aff x y => .aff x ((p - y % p) % p)

/-- Full affine group law.  `inf` is a two-sided identity on the nose; otherwise
    coordinates are read mod `p` and the result has coordinates `< p`. -/
def add : Point → Point → Point
  | .inf, Q => Q
  | P, .inf => P
  | .aff x1 y1, .aff x2 y2 =>
    let x1 := x1 % p; let y1 := y1 % p
    let x2 := x2 % p; let y2 := y2 % p
    if x1 == x2 then
      if y1 == y2 && y1 != 0 then
        -- doubling: λ = 3x² / 2y
        let l  := fmul (fmul 3 (fsqr x1)) (modInv (fadd y1 y1))
        let x3 := fsub (fsub (fsqr l) x1) x1
        let y3 := fsub (fmul l (fsub x1 x3)) y1
        .aff x3 y3
      else
        -- P + (−P)  (also the degenerate off-curve case y1 ≠ ±y2)
        .inf
    else
      let l  := fmul (fsub y2 y1) (modInv (fsub x2 x1))
      let x3 := fsub (fsub (fsqr l) x1) x2
      let y3 := fsub (fmul l (fsub x1 x3)) y1
      .aff x3 y3

/-! ## Jacobian coordinates (internal to `mul`) -/

/-- Jacobian point `(X : Y : Z)` ↦ affine `(X/Z², Y/Z³)`; `Z = 0` is infinity. -/
structure Jac where
  X : Nat
  Y : Nat
  Z : Nat
  deriving Repr

def Jac.inf : Jac := ⟨1, 1, 0⟩

/-- Jacobian doubling for `a = 0` (dbl-2009-l). -/
def Jac.dbl (P : Jac) : Jac :=
  if P.Z == 0 || P.Y == 0 then Jac.inf else
  let A  := fsqr P.X
  let B  := fsqr P.Y
  let C  := fsqr B
  let t  := fadd P.X B
  let D  := fmul 2 (fsub (fsub (fsqr t) A) C)
  let E  := fmul 3 A
  let F  := fsqr E
  let X3 := fsub F (fmul 2 D)
  let Y3 := fsub (fmul E (fsub D X3)) (fmul 8 C)
  let Z3 := fmul 2 (fmul P.Y P.Z)
  ⟨X3, Y3, Z3⟩

/-- Mixed addition: Jacobian `P` plus affine `(x2, y2)` (both `< p`). -/
def Jac.addAff (P : Jac) (x2 y2 : Nat) : Jac :=
  if P.Z == 0 then ⟨x2, y2, 1⟩ else
  let Z2 := fsqr P.Z
  let U2 := fmul x2 Z2
  let S2 := fmul y2 (fmul Z2 P.Z)
  let H  := fsub U2 P.X
  let R  := fsub S2 P.Y
  if H == 0 then
    if R == 0 then P.dbl else Jac.inf
  else
    let H2 := fsqr H
    let H3 := fmul H2 H
    let V  := fmul P.X H2
    let X3 := fsub (fsub (fsqr R) H3) (fmul 2 V)
    let Y3 := fsub (fmul R (fsub V X3)) (fmul P.Y H3)
    let Z3 := fmul P.Z H
    ⟨X3, Y3, Z3⟩

/-- Back to affine: the single modular inversion. -/
def Jac.toPoint (P : Jac) : Point :=
  if P.Z == 0 then .inf else
  let zi  := modInv P.Z
  let zi2 := fsqr zi
  .aff (fmul P.X zi2) (fmul P.Y (fmul zi2 zi))

/-- Worker for `mul`: scans bits `i-1 … 0` of `k`, most significant first. -/
def mulAux (k x y : Nat) : Nat → Jac → Jac
  | 0,     acc => acc
  | i + 1, acc =>
    let acc := acc.dbl
    let acc := if k.testBit i then acc.addAff x y else acc
    mulAux k x y i acc

/-- Scalar multiplication `k·P` for any `k : Nat` (no reduction mod `n`):
    left-to-right double-and-add over the bits of `k`, Jacobian accumulator,
    one inversion at the end.  Structural on the bit length of `k`. -/
def mul (k : Nat) (P : Point) : Point :=
  match P with
  | .inf     => .inf
  | .aff x y => (mulAux k (x % p) (y % p) (Nat.log2 k + 1) Jac.inf).toPoint

def mulG (k : Nat) : Point := mul k G

/-! ## Byte conversions and serialisation -/

/-- Big-endian bytes → `Nat`. -/
def bytesToNat (bs : List UInt8) : Nat :=
  bs.foldl (fun acc c => acc * 256 + c.toNat) 0

/-- Worker: the `len` low-order bytes of `x`, big-endian, prepended to `acc`. -/
def natToBytesAux : Nat → Nat → List UInt8 → List UInt8
  | 0,       _, acc => acc
  | len + 1, x, acc => natToBytesAux len (x / 256) (UInt8.ofNat (x % 256) :: acc)

/-- Big-endian, exactly 32 bytes (`x mod 2^256`). -/
def natToBytes32 (x : Nat) : List UInt8 := natToBytesAux 32 x []

/-- 33 bytes: `02`/`03` (odd y) ++ x;  `inf ↦ []`. -/
def serCompressed : Point → List UInt8
  | .inf     => []
  | .aff x y => (if y % 2 == 1 then 0x03 else 0x02) :: natToBytes32 x

/-- 65 bytes: `04` ++ x ++ y;  `inf ↦ []`. -/
def serUncompressed : Point → List UInt8
  | .inf     => []
  | .aff x y => 0x04 :: (natToBytes32 x ++ natToBytes32 y)

/-- 65 bytes: `06`/`07` (odd y) ++ x ++ y;  `inf ↦ []`. -/
def serHybrid : Point → List UInt8
  | .inf     => []
  | .aff x y => (if y % 2 == 1 then 0x07 else 0x06) :: (natToBytes32 x ++ natToBytes32 y)

/-- Mirror of bchec `decompressPoint`: `y = (x³+7)^((p+1)/4)`, flipped to
    `p - y` if its parity differs from `ybit`; then checked to be a root and to
    have the requested parity.  (As in Go, `x` is *not* range-checked here and
    the result may equal `p` when the root is 0; the caller rejects those.) -/
def decompressY (x : Nat) (ybit : Bool) : Option Nat :=
  let x3 := (x * x * x + b) % p
  let y  := modPow x3 ((p + 1) / 4) p
  let y  := if ybit != (y % 2 == 1) then p - y else y
  if (y * y) % p != x3 then none
  else if ybit != (y % 2 == 1) then none
  else some y

/-- Mirror of `bchec.ParsePubKey(bs, S256())`; `some P` iff Go returns a key
    (then `P = aff key.X key.Y`), `none` iff Go returns an error. -/
def parsePubKey (bs : List UInt8) : Option Point :=
  match bs with
  | []        => none
  | f :: rest =>
    let ybit : Bool := f &&& 0x01 == 0x01
    let fmt  : UInt8 := f &&& 0xFE
    let xy? : Option (Nat × Nat) :=
      if bs.length == 65 then
        if fmt != 0x04 && fmt != 0x06 then none
        else
          let x := bytesToNat (rest.take 32)
          let y := bytesToNat (rest.drop 32)
          if fmt == 0x06 && ybit != (y % 2 == 1) then none else some (x, y)
      else if bs.length == 33 then
        if fmt != 0x02 then none
        else
          let x := bytesToNat rest
          (decompressY x ybit).map fun y => (x, y)
      else none
    match xy? with
    | none        => none
    | some (x, y) =>
      if x ≥ p then none
      else if y ≥ p then none
      else if !onCurve (.aff x y) then none
      else some (.aff x y)

/-! ## Tests -/

section Tests

private def hexDigit (c : Char) : Nat :=
  if '0' ≤ c ∧ c ≤ '9' then c.toNat - '0'.toNat
  else if 'a' ≤ c ∧ c ≤ 'f' then c.toNat - 'a'.toNat + 10
  else if 'A' ≤ c ∧ c ≤ 'F' then c.toNat - 'A'.toNat + 10
  else 0

private def hexToBytesAux : List Char → List UInt8
  | h :: l :: rest => UInt8.ofNat (hexDigit h * 16 + hexDigit l) :: hexToBytesAux rest
  | _              => []

private def hex (s : String) : List UInt8 := hexToBytesAux s.toList

-- parameters
#guard p == 2^256 - 2^32 - 977
#guard p % 4 == 3
#guard onCurve G
#guard onCurve .inf
#guard !onCurve (.aff Gx (Gy + 1))
#guard !onCurve (.aff (Gx + p) Gy)

-- field helpers
#guard modPow 2 10 1000 == 24
#guard modPow 5 0 7 == 1
#guard modPow 5 0 1 == 0
#guard modPow 3 (p - 1) p == 1
#guard fmul (modInv 12345) 12345 == 1
#guard modInv 0 == 0
#guard fsub 3 5 == p - 2
#guard (sqrtMod 4).map (fun r => (r * r) % p) == some 4
#guard sqrtMod (p - 1) == none          -- −1 is a non-residue (p ≡ 3 mod 4)
#guard sqrtMod 0 == some 0

-- small multiples with known coordinates
#guard mulG 0 == .inf
#guard mulG 1 == G
#guard mulG 2 == .aff
  0xC6047F9441ED7D6D3045406E95C07CD85C778E4B8CEF3CA7ABAC09B95C709EE5
  0x1AE168FEA63DC339A3C58419466CEAEEF7F632653266D0E1236431A950CFE52A
#guard mulG 3 == .aff
  0xF9308A019258C31049344F85F89D5229B531C845836F99B08601F113BCE036F9
  0x388F7B0F632DE8140FE337E62A37F3566500A99934C2231B6CB9FD7584B8E672
#guard add G G == mulG 2
#guard add (mulG 2) G == mulG 3
#guard add G (mulG 2) == mulG 3
#guard mul 5 .inf == .inf

-- group order / negation
#guard mulG n == .inf
#guard mulG (n - 1) == neg G
#guard mulG (n + 1) == G
#guard add G (neg G) == .inf
#guard add G .inf == G
#guard add .inf G == G
#guard neg (neg G) == G
#guard neg .inf == .inf
#guard onCurve (neg G)

-- homomorphism on large scalars
private def ka : Nat := 0xe144ddb785b9a90e0533e6287599fcbab71ae1cea2c636603855e485cdedda59
private def kb : Nat := 0xdab133884a2dd5c7468ce219d9b419f510dcd998090f8d4947170ea3a0696687
private def kc : Nat := 0x6a4520bf84aa5059ecd4be452d02268aa48e0a240795b70b3cc87426b6b98f3c
#guard add (mulG ka) (mulG kb) == mulG (ka + kb)
#guard add (mulG kb) (mulG kc) == mulG ((kb + kc) % n)
#guard add (mulG ka) (mulG (n - ka)) == .inf
#guard add (mulG kc) (mulG kc) == mulG (2 * kc)
#guard mul ka (mulG kb) == mulG (ka * kb % n)
#guard mul ka (mulG kb) == mul kb (mulG ka)
#guard onCurve (mulG kc)

-- cross-check against Go: bchec.PrivKeyFromBytes(S256(), k) ; pub.SerializeCompressed()
#guard serCompressed (mulG ka) ==
  hex "03dc98b4ca5dc00a7a90b5482dbb2a19bb42c51f0ec957fc8ec7e89552f3f99dcd"
#guard serCompressed (mulG kb) ==
  hex "03fcf74495f9182f9cfe3571642ee871ad17a5d2a3027435b0c915f6ef8184f910"
#guard serCompressed (mulG kc) ==
  hex "02183d72429fb36de09880c21f89e3fbcb88e397cc3a17033c1179a085b2798a12"
#guard serCompressed (mulG 0xb2ece3d589fcdd0e3a03b096e59dacd5a03560fa11dbb59183c280f8b51e6d19) ==
  hex "036449a27168eac49e8d8c5db0667eda06bb1c55b02f83582cd2472b02ccdc6427"
#guard serCompressed (mulG 0x86c25b72a19ab26eb1d5f042e4e6b686c43342f684daf99ccb715942d8a30398) ==
  hex "0344a3ac668835627e0bd7c9031bb88ca6384b4110816acf0c717c81d94642785c"
#guard serCompressed (mulG 0x0000000059220f0aac4143656a1b9189d851836d9d4f6f118d5321b849611c5d) ==
  hex "039e0c5d1155cd14b259b86b5bf5975ef1174608992ad0c9f49247a3fd7b972de6"
-- Go: SerializeHybrid of 5·G
#guard serHybrid (mulG 5) ==
  hex "062f8bde4d1a07209355b4a7250a5c5128e88b84bddc619ab7cba8d569b240efe4d8ac222636e5e3d6d4dba9dda6c9c426f788271bab0d6840dca87d3aa6ac62d6"

-- byte conversions
#guard bytesToNat [] == 0
#guard bytesToNat [1, 0] == 256
#guard (natToBytes32 1).length == 32
#guard natToBytes32 (2^256 + 5) == natToBytes32 5
#guard bytesToNat (natToBytes32 Gx) == Gx
#guard natToBytes32 0x0102 == List.replicate 30 0 ++ [1, 2]
#guard (serCompressed G).length == 33
#guard (serUncompressed G).length == 65
#guard (serHybrid G).length == 65
#guard serCompressed .inf == [] && serUncompressed .inf == [] && serHybrid .inf == []
#guard (serCompressed G).head? == some 0x02        -- Gy is even
#guard (serHybrid (neg G)).head? == some 0x07

-- parse ∘ serialise round trips
private def Q : Point := mulG kc
#guard parsePubKey (serCompressed G) == some G
#guard parsePubKey (serUncompressed G) == some G
#guard parsePubKey (serHybrid G) == some G
#guard parsePubKey (serCompressed (neg G)) == some (neg G)
#guard parsePubKey (serHybrid (neg G)) == some (neg G)
#guard parsePubKey (serCompressed Q) == some Q
#guard parsePubKey (serUncompressed Q) == some Q
#guard parsePubKey (serHybrid Q) == some Q
-- Go accepts 0x05 as "uncompressed" (low bit is masked off before the format test)
#guard parsePubKey (0x05 :: (serUncompressed G).drop 1) == some G
-- Go: ParsePubKey(02 00…01) = (1, 4218f2…a7ee)
#guard parsePubKey (0x02 :: natToBytes32 1) == some (.aff 1
  0x4218f20ae6c646b363db68605822fb14264ca8d2587fdd6fbc750d587e76a7ee)

-- rejections
#guard parsePubKey [] == none
#guard parsePubKey [0x02] == none
#guard parsePubKey ((serCompressed G).take 32) == none                         -- 32 bytes
#guard parsePubKey (serCompressed G ++ [0]) == none                            -- 34 bytes
#guard parsePubKey ((serUncompressed G).take 64) == none                       -- 64 bytes
#guard parsePubKey (serUncompressed G ++ [0]) == none                          -- 66 bytes
#guard parsePubKey (0x04 :: natToBytes32 Gx) == none                           -- 33 bytes, fmt 04
#guard parsePubKey (0x02 :: (serUncompressed G).drop 1) == none                -- 65 bytes, fmt 02
#guard parsePubKey (0x00 :: natToBytes32 Gx) == none                           -- bad magic
#guard parsePubKey (0x08 :: (serUncompressed G).drop 1) == none                -- bad magic
#guard parsePubKey (0x07 :: (serUncompressed G).drop 1) == none                -- hybrid, wrong parity
#guard parsePubKey (0x06 :: (serUncompressed (neg G)).drop 1) == none          -- hybrid, wrong parity
#guard parsePubKey (0x04 :: (natToBytes32 Gx ++ natToBytes32 (Gy + 1))) == none -- off curve
#guard parsePubKey (0x04 :: (natToBytes32 (Gx + 1) ++ natToBytes32 Gy)) == none -- off curve
#guard parsePubKey (0x02 :: natToBytes32 5) == none                            -- 5³+7 non-residue (Go: "invalid square root")
#guard parsePubKey (0x02 :: natToBytes32 (2^256 - 1)) == none                  -- x ≥ p
#guard parsePubKey (0x02 :: natToBytes32 (p + 1)) == none                      -- x ≥ p although x mod p = 1 decompresses
#guard parsePubKey (0x04 :: (natToBytes32 (p + 1) ++
  natToBytes32 0x4218f20ae6c646b363db68605822fb14264ca8d2587fdd6fbc750d587e76a7ee)) == none -- x ≥ p
#guard parsePubKey (0x04 :: (natToBytes32 1 ++ natToBytes32 p)) == none        -- y ≥ p

end Tests

end Bch.Prim.Secp
