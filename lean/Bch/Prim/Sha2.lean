/-
  Bch.Prim.Sha2 — SHA-256, SHA-512, HMAC-SHA-256 and HMAC-SHA-512 (FIPS 180-4, RFC 2104)
  as pure, total, executable functions over `List UInt8`.

  Core Lean only: no imports, no `partial`, no `unsafe`, no `implemented_by`.
  All loops are `Nat.fold` / `List.foldl`, so every definition is structurally total.
  Internally the padded message is held in a `ByteArray` and the message schedule in an
  `Array UInt32` / `Array UInt64` for speed.
-/

namespace Bch.Prim

namespace Sha2

/-! ## Hex helpers -/

/-- Lower-case hex digit of the low nibble of `n`. -/
def hexDigit (n : UInt8) : Char :=
  let d := (n &&& 0x0f).toNat
  if d < 10 then Char.ofNat (48 + d) else Char.ofNat (87 + d)

/-- Lower-case hex encoding of a byte string. -/
def hex (bs : List UInt8) : String :=
  String.ofList (bs.foldr (fun (b : UInt8) acc => hexDigit (b >>> 4) :: hexDigit b :: acc) [])

/-- Value of a hex digit (either case); non-hex characters count as 0. -/
def unhexDigit (c : Char) : UInt8 :=
  let n := c.toNat
  if 48 ≤ n ∧ n ≤ 57 then UInt8.ofNat (n - 48)
  else if 97 ≤ n ∧ n ≤ 102 then UInt8.ofNat (n - 87)
  else if 65 ≤ n ∧ n ≤ 70 then UInt8.ofNat (n - 55)
  else 0

/-- Pairs up hex digits into bytes; a trailing odd digit is dropped. -/
def unhexChars : List Char → List UInt8
  | hi :: lo :: rest => ((unhexDigit hi <<< 4) ||| unhexDigit lo) :: unhexChars rest
  | _ => []

/-- Decode a hex string (either case) into bytes. -/
def unhex (s : String) : List UInt8 := unhexChars s.toList

/-! ## Constant tables -/

/-- SHA-256 round constants (first 32 bits of the fractional parts of the cube roots of the
first 64 primes). -/
def K256 : Array UInt32 := #[
    0x428a2f98, 0x71374491, 0xb5c0fbcf, 0xe9b5dba5, 0x3956c25b, 0x59f111f1, 0x923f82a4, 0xab1c5ed5,
    0xd807aa98, 0x12835b01, 0x243185be, 0x550c7dc3, 0x72be5d74, 0x80deb1fe, 0x9bdc06a7, 0xc19bf174,
    0xe49b69c1, 0xefbe4786, 0x0fc19dc6, 0x240ca1cc, 0x2de92c6f, 0x4a7484aa, 0x5cb0a9dc, 0x76f988da,
    0x983e5152, 0xa831c66d, 0xb00327c8, 0xbf597fc7, 0xc6e00bf3, 0xd5a79147, 0x06ca6351, 0x14292967,
    0x27b70a85, 0x2e1b2138, 0x4d2c6dfc, 0x53380d13, 0x650a7354, 0x766a0abb, 0x81c2c92e, 0x92722c85,
    0xa2bfe8a1, 0xa81a664b, 0xc24b8b70, 0xc76c51a3, 0xd192e819, 0xd6990624, 0xf40e3585, 0x106aa070,
    0x19a4c116, 0x1e376c08, 0x2748774c, 0x34b0bcb5, 0x391c0cb3, 0x4ed8aa4a, 0x5b9cca4f, 0x682e6ff3,
    0x748f82ee, 0x78a5636f, 0x84c87814, 0x8cc70208, 0x90befffa, 0xa4506ceb, 0xbef9a3f7, 0xc67178f2
  ]

/-- SHA-256 initial hash value. -/
def H256 : Array UInt32 := #[
    0x6a09e667, 0xbb67ae85, 0x3c6ef372, 0xa54ff53a, 0x510e527f, 0x9b05688c, 0x1f83d9ab, 0x5be0cd19
  ]

/-- SHA-512 round constants (first 64 bits of the fractional parts of the cube roots of the
first 80 primes). -/
def K512 : Array UInt64 := #[
    0x428a2f98d728ae22, 0x7137449123ef65cd, 0xb5c0fbcfec4d3b2f, 0xe9b5dba58189dbbc,
    0x3956c25bf348b538, 0x59f111f1b605d019, 0x923f82a4af194f9b, 0xab1c5ed5da6d8118,
    0xd807aa98a3030242, 0x12835b0145706fbe, 0x243185be4ee4b28c, 0x550c7dc3d5ffb4e2,
    0x72be5d74f27b896f, 0x80deb1fe3b1696b1, 0x9bdc06a725c71235, 0xc19bf174cf692694,
    0xe49b69c19ef14ad2, 0xefbe4786384f25e3, 0x0fc19dc68b8cd5b5, 0x240ca1cc77ac9c65,
    0x2de92c6f592b0275, 0x4a7484aa6ea6e483, 0x5cb0a9dcbd41fbd4, 0x76f988da831153b5,
    0x983e5152ee66dfab, 0xa831c66d2db43210, 0xb00327c898fb213f, 0xbf597fc7beef0ee4,
    0xc6e00bf33da88fc2, 0xd5a79147930aa725, 0x06ca6351e003826f, 0x142929670a0e6e70,
    0x27b70a8546d22ffc, 0x2e1b21385c26c926, 0x4d2c6dfc5ac42aed, 0x53380d139d95b3df,
    0x650a73548baf63de, 0x766a0abb3c77b2a8, 0x81c2c92e47edaee6, 0x92722c851482353b,
    0xa2bfe8a14cf10364, 0xa81a664bbc423001, 0xc24b8b70d0f89791, 0xc76c51a30654be30,
    0xd192e819d6ef5218, 0xd69906245565a910, 0xf40e35855771202a, 0x106aa07032bbd1b8,
    0x19a4c116b8d2d0c8, 0x1e376c085141ab53, 0x2748774cdf8eeb99, 0x34b0bcb5e19b48a8,
    0x391c0cb3c5c95a63, 0x4ed8aa4ae3418acb, 0x5b9cca4f7763e373, 0x682e6ff3d6b2b8a3,
    0x748f82ee5defb2fc, 0x78a5636f43172f60, 0x84c87814a1f0ab72, 0x8cc702081a6439ec,
    0x90befffa23631e28, 0xa4506cebde82bde9, 0xbef9a3f7b2c67915, 0xc67178f2e372532b,
    0xca273eceea26619c, 0xd186b8c721c0c207, 0xeada7dd6cde0eb1e, 0xf57d4f7fee6ed178,
    0x06f067aa72176fba, 0x0a637dc5a2c898a6, 0x113f9804bef90dae, 0x1b710b35131c471b,
    0x28db77f523047d84, 0x32caab7b40c72493, 0x3c9ebe0a15c9bebc, 0x431d67c49c100d4c,
    0x4cc5d4becb3e42b6, 0x597f299cfc657e2a, 0x5fcb6fab3ad6faec, 0x6c44198c4a475817
  ]

/-- SHA-512 initial hash value. -/
def H512 : Array UInt64 := #[
    0x6a09e667f3bcc908, 0xbb67ae8584caa73b, 0x3c6ef372fe94f82b, 0xa54ff53a5f1d36f1,
    0x510e527fade682d1, 0x9b05688c2b3e6c1f, 0x1f83d9abfb41bd6b, 0x5be0cd19137e2179
  ]

/-! ## Padding -/

/-- Big-endian encoding of `n` in exactly `w` bytes (truncating), pushed onto `buf`. -/
def pushBE (buf : ByteArray) (n : Nat) (w : Nat) : ByteArray :=
  Nat.fold w (fun i _ b => b.push (UInt8.ofNat (n >>> (8 * (w - 1 - i))))) buf

/-- Merkle–Damgård padding: `msg ‖ 0x80 ‖ 0…0 ‖ bitlen`, where the bit length is encoded
big-endian in `lenBytes` bytes and the total is a multiple of `block` bytes. -/
def pad (block lenBytes : Nat) (msg : List UInt8) : ByteArray :=
  let buf := msg.foldl (fun b x => b.push x) (ByteArray.emptyWithCapacity 256)
  let len := buf.size
  let buf := buf.push 0x80
  let zeros := (block - (len + 1 + lenBytes) % block) % block
  let buf := Nat.fold zeros (fun _ _ b => b.push 0) buf
  pushBE buf (8 * len) lenBytes

/-! ## SHA-256 -/

@[inline] def rotr32 (x : UInt32) (n : UInt32) : UInt32 := (x >>> n) ||| (x <<< (32 - n))

@[inline] def be32 (buf : ByteArray) (off : Nat) : UInt32 :=
  (buf[off]!.toUInt32 <<< 24) ||| (buf[off + 1]!.toUInt32 <<< 16) |||
  (buf[off + 2]!.toUInt32 <<< 8) ||| buf[off + 3]!.toUInt32

/-- The 64-word message schedule of the block starting at byte `off`. -/
def schedule256 (buf : ByteArray) (off : Nat) : Array UInt32 :=
  let w := Nat.fold 16 (fun i _ w => w.push (be32 buf (off + 4 * i))) (Array.emptyWithCapacity 64)
  Nat.fold 48 (fun j _ w =>
    let w15 := w[j + 1]!
    let w2 := w[j + 14]!
    let s0 := rotr32 w15 7 ^^^ rotr32 w15 18 ^^^ (w15 >>> 3)
    let s1 := rotr32 w2 17 ^^^ rotr32 w2 19 ^^^ (w2 >>> 10)
    w.push (s1 + w[j + 9]! + s0 + w[j]!)) w

/-- Working variables `a … h`. -/
structure St256 where
  a : UInt32
  b : UInt32
  c : UInt32
  d : UInt32
  e : UInt32
  f : UInt32
  g : UInt32
  h : UInt32

@[inline] def round256 (s : St256) (kw : UInt32) : St256 :=
  let S1 := rotr32 s.e 6 ^^^ rotr32 s.e 11 ^^^ rotr32 s.e 25
  let ch := (s.e &&& s.f) ^^^ (~~~s.e &&& s.g)
  let t1 := s.h + S1 + ch + kw
  let S0 := rotr32 s.a 2 ^^^ rotr32 s.a 13 ^^^ rotr32 s.a 22
  let maj := (s.a &&& s.b) ^^^ (s.a &&& s.c) ^^^ (s.b &&& s.c)
  let t2 := S0 + maj
  { a := t1 + t2, b := s.a, c := s.b, d := s.c, e := s.d + t1, f := s.e, g := s.f, h := s.g }

/-- Compression function: absorb the 64-byte block of `buf` at byte `off` into `s`. -/
def compress256 (buf : ByteArray) (off : Nat) (s : St256) : St256 :=
  let w := schedule256 buf off
  let t := Nat.fold 64 (fun i _ t => round256 t (K256[i]! + w[i]!)) s
  { a := s.a + t.a, b := s.b + t.b, c := s.c + t.c, d := s.d + t.d,
    e := s.e + t.e, f := s.f + t.f, g := s.g + t.g, h := s.h + t.h }

@[inline] def bytes32 (x : UInt32) (acc : List UInt8) : List UInt8 :=
  (x >>> 24).toUInt8 :: (x >>> 16).toUInt8 :: (x >>> 8).toUInt8 :: x.toUInt8 :: acc

def init256 : St256 :=
  { a := H256[0]!, b := H256[1]!, c := H256[2]!, d := H256[3]!,
    e := H256[4]!, f := H256[5]!, g := H256[6]!, h := H256[7]! }

/-! ## SHA-512 -/

@[inline] def rotr64 (x : UInt64) (n : UInt64) : UInt64 := (x >>> n) ||| (x <<< (64 - n))

@[inline] def be64 (buf : ByteArray) (off : Nat) : UInt64 :=
  (buf[off]!.toUInt64 <<< 56) ||| (buf[off + 1]!.toUInt64 <<< 48) |||
  (buf[off + 2]!.toUInt64 <<< 40) ||| (buf[off + 3]!.toUInt64 <<< 32) |||
  (buf[off + 4]!.toUInt64 <<< 24) ||| (buf[off + 5]!.toUInt64 <<< 16) |||
  (buf[off + 6]!.toUInt64 <<< 8) ||| buf[off + 7]!.toUInt64

/-- The 80-word message schedule of the block starting at byte `off`. -/
def schedule512 (buf : ByteArray) (off : Nat) : Array UInt64 :=
  let w := Nat.fold 16 (fun i _ w => w.push (be64 buf (off + 8 * i))) (Array.emptyWithCapacity 80)
  Nat.fold 64 (fun j _ w =>
    let w15 := w[j + 1]!
    let w2 := w[j + 14]!
    let s0 := rotr64 w15 1 ^^^ rotr64 w15 8 ^^^ (w15 >>> 7)
    let s1 := rotr64 w2 19 ^^^ rotr64 w2 61 ^^^ (w2 >>> 6)
    w.push (s1 + w[j + 9]! + s0 + w[j]!)) w

/-- Working variables `a … h`. -/
structure St512 where
  a : UInt64
  b : UInt64
  c : UInt64
  d : UInt64
  e : UInt64
  f : UInt64
  g : UInt64
  h : UInt64

@[inline] def round512 (s : St512) (kw : UInt64) : St512 :=
  let S1 := rotr64 s.e 14 ^^^ rotr64 s.e 18 ^^^ rotr64 s.e 41
  let ch := (s.e &&& s.f) ^^^ (~~~s.e &&& s.g)
  let t1 := s.h + S1 + ch + kw
  let S0 := rotr64 s.a 28 ^^^ rotr64 s.a 34 ^^^ rotr64 s.a 39
  let maj := (s.a &&& s.b) ^^^ (s.a &&& s.c) ^^^ (s.b &&& s.c)
  let t2 := S0 + maj
  { a := t1 + t2, b := s.a, c := s.b, d := s.c, e := s.d + t1, f := s.e, g := s.f, h := s.g }

/-- Compression function: absorb the 128-byte block of `buf` at byte `off` into `s`. -/
def compress512 (buf : ByteArray) (off : Nat) (s : St512) : St512 :=
  let w := schedule512 buf off
  let t := Nat.fold 80 (fun i _ t => round512 t (K512[i]! + w[i]!)) s
  { a := s.a + t.a, b := s.b + t.b, c := s.c + t.c, d := s.d + t.d,
    e := s.e + t.e, f := s.f + t.f, g := s.g + t.g, h := s.h + t.h }

@[inline] def bytes64 (x : UInt64) (acc : List UInt8) : List UInt8 :=
  (x >>> 56).toUInt8 :: (x >>> 48).toUInt8 :: (x >>> 40).toUInt8 :: (x >>> 32).toUInt8 ::
  (x >>> 24).toUInt8 :: (x >>> 16).toUInt8 :: (x >>> 8).toUInt8 :: x.toUInt8 :: acc

def init512 : St512 :=
  { a := H512[0]!, b := H512[1]!, c := H512[2]!, d := H512[3]!,
    e := H512[4]!, f := H512[5]!, g := H512[6]!, h := H512[7]! }

/-! ## HMAC (RFC 2104), generic in the hash -/

/-- `HMAC(K, m) = H((K' ⊕ opad) ‖ H((K' ⊕ ipad) ‖ m))`, where `K'` is `K` (hashed first if longer
than the block size) zero-padded to `block` bytes. -/
def hmac (hash : List UInt8 → List UInt8) (block : Nat) (key msg : List UInt8) : List UInt8 :=
  let k := if key.length > block then hash key else key
  let k := k ++ List.replicate (block - k.length) 0
  let ipad := k.map (· ^^^ 0x36)
  let opad := k.map (· ^^^ 0x5c)
  hash (opad ++ hash (ipad ++ msg))

end Sha2

open Sha2 in
/-- SHA-256 (FIPS 180-4); the result is 32 bytes. -/
def sha256 (msg : List UInt8) : List UInt8 :=
  let buf := pad 64 8 msg
  let s := Nat.fold (buf.size / 64) (fun i _ s => compress256 buf (64 * i) s) init256
  bytes32 s.a <| bytes32 s.b <| bytes32 s.c <| bytes32 s.d <|
  bytes32 s.e <| bytes32 s.f <| bytes32 s.g <| bytes32 s.h []

/-- Double SHA-256: `sha256 (sha256 msg)`. -/
def sha256d (msg : List UInt8) : List UInt8 := sha256 (sha256 msg)

open Sha2 in
/-- SHA-512 (FIPS 180-4); the result is 64 bytes. -/
def sha512 (msg : List UInt8) : List UInt8 :=
  let buf := pad 128 16 msg
  let s := Nat.fold (buf.size / 128) (fun i _ s => compress512 buf (128 * i) s) init512
  bytes64 s.a <| bytes64 s.b <| bytes64 s.c <| bytes64 s.d <|
  bytes64 s.e <| bytes64 s.f <| bytes64 s.g <| bytes64 s.h []

/-- HMAC-SHA-512 (RFC 2104 / RFC 4231); the result is 64 bytes. -/
def hmacSha512 (key msg : List UInt8) : List UInt8 := Sha2.hmac sha512 128 key msg

/-- HMAC-SHA-256 (RFC 2104 / RFC 4231); the result is 32 bytes. -/
def hmacSha256 (key msg : List UInt8) : List UInt8 := Sha2.hmac sha256 64 key msg

/-! ## Test vectors

Expected values cross-checked against Python `hashlib` / `hmac` and `sha256sum`. -/

section Tests
open Sha2

/-- The UTF-8 bytes of a string, as a list. -/
private def ascii (s : String) : List UInt8 := s.toUTF8.toList

private def a1000 : List UInt8 := List.replicate 1000 0x61

-- hex / unhex round trip
#guard hex [0x00, 0x0f, 0xa5, 0xff] == "000fa5ff"
#guard unhex "000fA5ff" == [0x00, 0x0f, 0xa5, 0xff]

-- SHA-256 (FIPS 180-4 examples)
#guard hex (sha256 []) == "e3b0c44298fc1c149afbf4c8996fb92427ae41e4649b934ca495991b7852b855"
#guard hex (sha256 (ascii "abc")) ==
  "ba7816bf8f01cfea414140de5dae2223b00361a396177a9cb410ff61f20015ad"
#guard hex (sha256 (ascii "abcdbcdecdefdefgefghfghighijhijkijkljklmklmnlmnomnopnopq")) ==
  "248d6a61d20638b8e5c026930c3e6039a33ce45964ff2167f6ecedd419db06c1"
#guard hex (sha256 a1000) == "41edece42d63e8d9bf515a9ba6932e1c20cbc9f5a5d134645adb5db1b9737ea3"
#guard (sha256 a1000).length == 32
#guard hex (sha256d (ascii "hello")) ==
  "9595c9df90075148eb06860365df33584b75bff782a510c6cd4883a419833d50"

-- SHA-512
#guard hex (sha512 []) ==
  "cf83e1357eefb8bdf1542850d66d8007d620e4050b5715dc83f4a921d36ce9ce" ++
  "47d0d13c5d85f2b0ff8318d2877eec2f63b931bd47417a81a538327af927da3e"
#guard hex (sha512 (ascii "abc")) ==
  "ddaf35a193617abacc417349ae20413112e6fa4e89a97ea20a9eeee64b55d39a" ++
  "2192992a274fc1a836ba3c23a3feebbd454d4423643ce80e2a9ac94fa54ca49f"
#guard hex (sha512 a1000) ==
  "67ba5535a46e3f86dbfbed8cbbaf0125c76ed549ff8b0b9e03e0c88cf90fa634" ++
  "fa7b12b47d77b694de488ace8d9a65967dc96df599727d3292a8d9d447709c97"
#guard (sha512 a1000).length == 64

-- RFC 4231 inputs
private def tc1Key : List UInt8 := List.replicate 20 0x0b
private def tc1Msg : List UInt8 := ascii "Hi There"
private def tc2Key : List UInt8 := ascii "Jefe"
private def tc2Msg : List UInt8 := ascii "what do ya want for nothing?"
private def tc3Key : List UInt8 := List.replicate 20 0xaa
private def tc3Msg : List UInt8 := List.replicate 50 0xdd
private def tc6Key : List UInt8 := List.replicate 131 0xaa
private def tc6Msg : List UInt8 := ascii "Test Using Larger Than Block-Size Key - Hash Key First"

-- HMAC-SHA-512, RFC 4231 test cases 1, 2, 3, 6
#guard hex (hmacSha512 tc1Key tc1Msg) ==
  "87aa7cdea5ef619d4ff0b4241a1d6cb02379f4e2ce4ec2787ad0b30545e17cde" ++
  "daa833b7d6b8a702038b274eaea3f4e4be9d914eeb61f1702e696c203a126854"
#guard hex (hmacSha512 tc2Key tc2Msg) ==
  "164b7a7bfcf819e2e395fbe73b56e0a387bd64222e831fd610270cd7ea250554" ++
  "9758bf75c05a994a6d034f65f8f0e6fdcaeab1a34d4a6b4b636e070a38bce737"
#guard hex (hmacSha512 tc3Key tc3Msg) ==
  "fa73b0089d56a284efb0f0756c890be9b1b5dbdd8ee81a3655f83e33b2279d39" ++
  "bf3e848279a722c806b485a47e67c807b946a337bee8942674278859e13292fb"
#guard hex (hmacSha512 tc6Key tc6Msg) ==
  "80b24263c7c1a3ebb71493c1dd7be8b49b46d1f41b4aeec1121b013783f8f352" ++
  "6b56d037e05f2598bd0fd2215d6a1e5295e64f73f63f0aec8b915a985d786598"

-- HMAC-SHA-256, RFC 4231 test cases 1, 2, 6
#guard hex (hmacSha256 tc1Key tc1Msg) ==
  "b0344c61d8db38535ca8afceaf0bf12b881dc200c9833da726e9376c2e32cff7"
#guard hex (hmacSha256 tc2Key tc2Msg) ==
  "5bdcc146bf60754e6a042426089575c75a003f089d2739839dec58b964ec3843"
#guard hex (hmacSha256 tc6Key tc6Msg) ==
  "60e431591ee0b67f0d8a26aacbf5b77f8e0bc6213728c5140546040f0ee37f54"

end Tests

end Bch.Prim
