/-
  RIPEMD-160, pure / total / executable, core Lean only (no imports).

  Follows Dobbertin, Bosselaers, Preneel, "RIPEMD-160: A Strengthened Version
  of RIPEMD" (the same algorithm as `golang.org/x/crypto/ripemd160`).
-/

namespace Bch.Prim

namespace Ripemd160

/-! ### Constant tables -/

/-- Message-word selection, left line (`r`). -/
def rL : Array Nat := #[
  0, 1, 2, 3, 4, 5, 6, 7, 8, 9, 10, 11, 12, 13, 14, 15,
  7, 4, 13, 1, 10, 6, 15, 3, 12, 0, 9, 5, 2, 14, 11, 8,
  3, 10, 14, 4, 9, 15, 8, 1, 2, 7, 0, 6, 13, 11, 5, 12,
  1, 9, 11, 10, 0, 8, 12, 4, 13, 3, 7, 15, 14, 5, 6, 2,
  4, 0, 5, 9, 7, 12, 2, 10, 14, 1, 3, 8, 11, 6, 15, 13]

/-- Message-word selection, right line (`r'`). -/
def rR : Array Nat := #[
  5, 14, 7, 0, 9, 2, 11, 4, 13, 6, 15, 8, 1, 10, 3, 12,
  6, 11, 3, 7, 0, 13, 5, 10, 14, 15, 8, 12, 4, 9, 1, 2,
  15, 5, 1, 3, 7, 14, 6, 9, 11, 8, 12, 2, 10, 0, 4, 13,
  8, 6, 4, 1, 3, 11, 15, 0, 5, 12, 2, 13, 9, 7, 10, 14,
  12, 15, 10, 4, 1, 5, 8, 7, 6, 2, 13, 14, 0, 3, 9, 11]

/-- Rotation amounts, left line (`s`). -/
def sL : Array UInt32 := #[
  11, 14, 15, 12, 5, 8, 7, 9, 11, 13, 14, 15, 6, 7, 9, 8,
  7, 6, 8, 13, 11, 9, 7, 15, 7, 12, 15, 9, 11, 7, 13, 12,
  11, 13, 6, 7, 14, 9, 13, 15, 14, 8, 13, 6, 5, 12, 7, 5,
  11, 12, 14, 15, 14, 15, 9, 8, 9, 14, 5, 6, 8, 6, 5, 12,
  9, 15, 5, 11, 6, 8, 13, 12, 5, 12, 13, 14, 11, 8, 5, 6]

/-- Rotation amounts, right line (`s'`). -/
def sR : Array UInt32 := #[
  8, 9, 9, 11, 13, 15, 15, 5, 7, 7, 8, 11, 14, 14, 12, 6,
  9, 13, 15, 7, 12, 8, 9, 11, 7, 7, 12, 7, 6, 15, 13, 11,
  9, 7, 15, 11, 8, 6, 6, 14, 12, 13, 5, 14, 13, 13, 7, 5,
  15, 5, 8, 11, 14, 14, 6, 14, 6, 9, 12, 9, 12, 5, 15, 8,
  8, 5, 12, 9, 12, 5, 14, 6, 8, 13, 6, 5, 15, 13, 11, 11]

/-- Added constants per round, left line (`K`). -/
def kL : Array UInt32 := #[0x00000000, 0x5A827999, 0x6ED9EBA1, 0x8F1BBCDC, 0xA953FD4E]

/-- Added constants per round, right line (`K'`). -/
def kR : Array UInt32 := #[0x50A28BE6, 0x5C4DD124, 0x6D703EF3, 0x7A6D76E9, 0x00000000]

/-! ### Compression function -/

/-- Rotate left by `n` bits; only used with `0 < n < 32`. -/
@[inline] def rotl (x n : UInt32) : UInt32 :=
  (x <<< n) ||| (x >>> (32 - n))

/-- The five nonlinear functions `f_0 .. f_4`, selected by `i` (anything `≥ 4` is `f_4`). -/
def f (i : Nat) (x y z : UInt32) : UInt32 :=
  match i with
  | 0 => x ^^^ y ^^^ z
  | 1 => (x &&& y) ||| (~~~x &&& z)
  | 2 => (x ||| ~~~y) ^^^ z
  | 3 => (x &&& z) ||| (y &&& ~~~z)
  | _ => x ^^^ (y ||| ~~~z)

/-- Five 32-bit words: the chaining value, and also the working registers `A..E` of a line. -/
structure State where
  a : UInt32
  b : UInt32
  c : UInt32
  d : UInt32
  e : UInt32
  deriving Repr, DecidableEq, Inhabited

/-- The initial chaining value. -/
def iv : State :=
  { a := 0x67452301, b := 0xEFCDAB89, c := 0x98BADCFE, d := 0x10325476, e := 0xC3D2E1F0 }

/-- One step of a line: nonlinear function index `fi`, constant `k`, message word `x`,
    rotation `s`. -/
@[inline] def step (fi : Nat) (k x s : UInt32) (v : State) : State :=
  let t := rotl (v.a + f fi v.b v.c v.d + x + k) s + v.e
  { a := v.e, b := t, c := v.b, d := rotl v.c 10, e := v.d }

/-- Step `j` (`0 ≤ j < 80`) of the left line on the 16-word block at `w[off ..]`. -/
def stepL (w : Array UInt32) (off : Nat) (v : State) (j : Nat) : State :=
  step (j / 16) (kL.getD (j / 16) 0) (w.getD (off + rL.getD j 0) 0) (sL.getD j 0) v

/-- Step `j` (`0 ≤ j < 80`) of the right line on the 16-word block at `w[off ..]`. -/
def stepR (w : Array UInt32) (off : Nat) (v : State) (j : Nat) : State :=
  step (4 - j / 16) (kR.getD (j / 16) 0) (w.getD (off + rR.getD j 0) 0) (sR.getD j 0) v

/-- The step indices `0 .. 79`. -/
def steps : List Nat := List.range 80

/-- Compress the 16-word block `w[off .. off+16)` into the chaining value `h`. -/
def compress (w : Array UInt32) (h : State) (off : Nat) : State :=
  let l := steps.foldl (stepL w off) h
  let r := steps.foldl (stepR w off) h
  { a := h.b + l.c + r.d
    b := h.c + l.d + r.e
    c := h.d + l.e + r.a
    d := h.e + l.a + r.b
    e := h.a + l.b + r.c }

/-! ### Padding and (de)serialisation -/

/-- The low 8 bytes of `n`, little-endian. -/
def le64Bytes (n : Nat) : List UInt8 :=
  (List.range 8).map fun i => (n >>> (8 * i)).toUInt8

/-- Merkle–Damgård padding: `0x80`, zeros up to 56 mod 64, then the bit length as LE64. -/
def padding (len : Nat) : List UInt8 :=
  0x80 :: (List.replicate ((119 - len % 64) % 64) 0 ++ le64Bytes (8 * len))

/-- Pack bytes into little-endian 32-bit words, appending to `acc`
    (a trailing group of fewer than 4 bytes is dropped; never happens after padding). -/
def wordsLE : List UInt8 → Array UInt32 → Array UInt32
  | b0 :: b1 :: b2 :: b3 :: rest, acc =>
      wordsLE rest (acc.push
        (b0.toUInt32 ||| (b1.toUInt32 <<< 8) ||| (b2.toUInt32 <<< 16) ||| (b3.toUInt32 <<< 24)))
  | _, acc => acc

/-- The 4 bytes of a word, little-endian, consed onto `tl`. -/
@[inline] def wordBytes (x : UInt32) (tl : List UInt8) : List UInt8 :=
  x.toUInt8 :: (x >>> 8).toUInt8 :: (x >>> 16).toUInt8 :: (x >>> 24).toUInt8 :: tl

/-- The 20-byte digest encoding of a chaining value. -/
def digest (h : State) : List UInt8 :=
  wordBytes h.a (wordBytes h.b (wordBytes h.c (wordBytes h.d (wordBytes h.e []))))

end Ripemd160

open Ripemd160 in
/-- RIPEMD-160 of a byte string; the result always has 20 bytes. -/
def ripemd160 (msg : List UInt8) : List UInt8 :=
  let len := msg.length
  let w := wordsLE (msg ++ padding len) (Array.mkEmpty ((len + 72) / 4))
  let h := (List.range (w.size / 16)).foldl (fun h i => compress w h (16 * i)) iv
  digest h

/-! ## Test vectors -/

namespace Ripemd160.Test

/-- Lower-case hex rendering. -/
def hex (bs : List UInt8) : String :=
  let digit (n : UInt8) : Char := "0123456789abcdef".toList.getD n.toNat '?'
  String.ofList (bs.foldr (fun (b : UInt8) acc => digit (b >>> 4) :: digit (b &&& 0xf) :: acc) [])

/-- RIPEMD-160 of the UTF-8 bytes of a string, as hex. -/
def rmdStr (s : String) : String := hex (ripemd160 s.toUTF8.toList)

/-- Message family used for cross-checking against `golang.org/x/crypto/ripemd160`
    (`msg[i] = 3*i + 1`). -/
def msg2 (n : Nat) : List UInt8 := (List.range n).map fun i => (3 * i + 1).toUInt8

end Ripemd160.Test

section
open Ripemd160 Ripemd160.Test

#guard rL.size == 80 && rR.size == 80 && sL.size == 80 && sR.size == 80
#guard kL.size == 5 && kR.size == 5

-- Vectors from the RIPEMD-160 paper / home page (also re-derived with Python's hashlib).
#guard rmdStr "" == "9c1185a5c5e9fc54612808977ee8f548b2258d31"
#guard rmdStr "a" == "0bdc9d2d256b3ee9daae347be6f4dc835a467ffe"
#guard rmdStr "abc" == "8eb208f7e05d987a9b044a8e98c6b087f15a0bfc"
#guard rmdStr "message digest" == "5d0689ef49d2fae572b881b123a85ffa21595f36"
#guard rmdStr "abcdefghijklmnopqrstuvwxyz" == "f71c27109c692c1b56bbdceb5b9d2865b3708dbc"
#guard rmdStr "abcdbcdecdefdefgefghfghighijhijkijkljklmklmnlmnomnopnopq"
        == "12a053384a9c0c88e405a06c27dcf49ada62eb2b"
#guard rmdStr "ABCDEFGHIJKLMNOPQRSTUVWXYZabcdefghijklmnopqrstuvwxyz0123456789"
        == "b0e20b6e3116640286ed3a87a5713079b21f5189"
#guard hex (ripemd160 (List.replicate 1000 0x61)) == "aa69deee9a8922e92f8105e007f76110f381e9cf"

-- Padding boundaries (`n × 'a'`; expected values from Python's hashlib).
#guard [55, 56, 63, 64, 65, 119, 120].map (fun n => hex (ripemd160 (List.replicate n 0x61))) ==
  ["0d8a8c9063a48576a7c97e9f95253a6e53ff6765", "e72334b46c83cc70bef979e15453706c95b888be",
   "e640041293fe663b9bf3f8c21ffecac03819e6b2", "9dfb7d374ad924f3f88de96291c33e9abed53e32",
   "99724bb11811e7166af38f671b6a082d8ab4960b", "23e398ff2bac815aa1bbb57ca2a669c841872919",
   "c476770a6dae31fcee8d25efe6559a05c8024595"]

-- Non-constant bytes (expected values from golang.org/x/crypto/ripemd160 v0.32.0).
#guard [1, 55, 56, 63, 64, 65, 119, 120, 1000].map (fun n => hex (ripemd160 (msg2 n))) ==
  ["f291ba5015df348c80853fa5bb0f7946f5c9e1b3", "00c750c5ead9b35fea981bcd7dff8f1ea69bfc5a",
   "c89d937d33da36039bdecb343a23044502dfbdee", "45199a69c5bdc761a59e42febeed953f68aa722b",
   "1b2fc34209e8de09d009fb123476e9b21f69e962", "12b303a8dcbe1cef1e2e012a10d86e80d6774d0f",
   "fc217117c73040ca5e68f31bb4a9fa063ea2200a", "f7bb3bbaff93221d0710e86f5fd664b59617aa11",
   "07dcd7581686b238a57dc0892ce014e2a435020b"]

#guard (ripemd160 []).length == 20
#guard (ripemd160 (msg2 1000)).length == 20

end

end Bch.Prim
