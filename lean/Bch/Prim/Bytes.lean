/-
Byte-string helpers shared by models, primitives and the driver. Core Lean only.
Go `[]byte` and Go `string` are both `List UInt8` here (Go strings are byte sequences).
-/
namespace Bch

abbrev Bytes := List UInt8

namespace Bytes

def hexDigit (n : Nat) : Char :=
  if n < 10 then Char.ofNat (48 + n) else Char.ofNat (87 + n)

/-- lower-case hex; the empty string is rendered "-" by `tok`, not here. -/
def toHex (bs : Bytes) : String :=
  String.ofList (bs.flatMap fun b => [hexDigit (b.toNat / 16), hexDigit (b.toNat % 16)])

def hexVal (c : Char) : Option Nat :=
  if '0' ≤ c ∧ c ≤ '9' then some (c.toNat - 48)
  else if 'a' ≤ c ∧ c ≤ 'f' then some (c.toNat - 87)
  else if 'A' ≤ c ∧ c ≤ 'F' then some (c.toNat - 55)
  else none

def ofHexChars : List Char → Option Bytes
  | [] => some []
  | [_] => none
  | a :: b :: rest => do
    let x ← hexVal a
    let y ← hexVal b
    let r ← ofHexChars rest
    pure (UInt8.ofNat (x * 16 + y) :: r)

def ofHex (s : String) : Option Bytes := ofHexChars s.toList

/-- token form: "-" for empty -/
def tok (bs : Bytes) : String := if bs.isEmpty then "-" else toHex bs

def ofTok (s : String) : Option Bytes := if s == "-" then some [] else ofHex s

def ofString (s : String) : Bytes := s.toUTF8.toList

/-- big-endian value -/
def toNatBE (bs : Bytes) : Nat := bs.foldl (fun acc b => acc * 256 + b.toNat) 0

/-- little-endian value -/
def toNatLE : Bytes → Nat
  | [] => 0
  | b :: bs => b.toNat + 256 * toNatLE bs

/-- `n` bytes little-endian -/
def ofNatLE : (n : Nat) → Nat → Bytes
  | 0, _ => []
  | n+1, x => UInt8.ofNat (x % 256) :: ofNatLE n (x / 256)

/-- `n` bytes big-endian -/
def ofNatBE (n : Nat) (x : Nat) : Bytes := (ofNatLE n x).reverse

/-- minimal big-endian representation (Go `big.Int.Bytes`): no leading zeros, 0 ↦ [] -/
def ofNatMin (x : Nat) : Bytes :=
  if _h : x = 0 then [] else ofNatMin (x / 256) ++ [UInt8.ofNat (x % 256)]
termination_by x
decreasing_by omega

end Bytes
end Bch
