import Bch.Drive.C13
import Bch.Drive.C01
import Bch.Drive.C07
import Bch.Drive.C06
import Bch.Drive.C05
import Bch.Drive.C11
namespace Bch.Drive.C08
open Bch Bch.Drive

/-- the resource/fault guard of C08 evaluated on the implementation's observation -/
def guard (impl : String) : String :=
  if impl.startsWith "PANIC" then "violated:panic " ++ impl
  else if impl.startsWith "TIMEOUT" then "violated:did not terminate in time"
  else if impl.startsWith "ALLOC" then "violated:allocation not proportional to the input " ++ (impl.takeWhile (· != ' ')).toString
  else "ok"

def owner (op : String) : Option Runner :=
  match op with
  | "dec" | "cdec" | "ccdec" | "cb" | "addr" => some C01.run
  | "wifdec" => some C06.run
  | "xkey" => some C05.run
  | "b58dec" | "chkdec" | "bechdec" => some C07.run
  | "hist" => some C09.run
  | "txm" | "blk" | "ex" => some C11.run
  | "gcsraw" => some C13.run
  | _ => none

def run : Runner
  | op, args, impl =>
    let g := guard impl
    match op with
    | "scantime" =>
      some { model := "ok", prop := if impl == "ok" then "ok" else "violated:block scan cost grows super-polynomially " ++ impl }
    | "json" | "blkbytes" | "txbytes" =>
      -- external decoders (encoding/json, jsonpb, wire) are not modelled: the guard is decided here, and the SHAPE of the
      -- observation: anything but a well-formed `ok…` / `err` (e.g. the harness's own "unmarshal/unmarshalnext disagree",
      -- a block whose TxLoc fails although it parsed, a byte length beyond the input) is a violation
      let inLen := ((args.getD 1 "").length) / 2
      let shapeOk : Bool :=
        match op, impl.splitOn ":" with
        | _, ["err"] => true
        | "json", ["ok"] => true
        | "blkbytes", ["ok", n, l, t] => n.toNat?.isSome && (match l.toNat? with | some v => decide (v ≤ inLen) | none => false) && t == "1"
        | "txbytes", ["ok", h] => h.length == 8
        | _, _ => false
      some { model := if g == "ok" then impl else "no-fault",
             prop := if g != "ok" then g else if shapeOk then "ok" else "violated:malformed or inconsistent result " ++ impl }
    | "bcb" => (C07.run "cb" args impl).map fun o => { o with prop := g }
    | _ =>
      match owner op with
      | none => none
      | some r => (r op args impl).map fun o => { o with prop := if g != "ok" then g else (if o.prop.startsWith "violated" then o.prop else "ok") }

end Bch.Drive.C08
