import Bch.Drive.C13
import Bch.Drive.C01
import Bch.Drive.C07
import Bch.Drive.C06
import Bch.Drive.C05
import Bch.Drive.C11
namespace Bch.Drive.C08
open Bch Bch.Drive

/-- the resource/fault guard of C08 evaluated on the implementation's observation -/
def guard (impl : String) : String :=
  if impl.startsWith "PANIC" then "violated:panic " ++ impl
  else if impl.startsWith "TIMEOUT" then "violated:did not terminate in time"
  else if impl.startsWith "ALLOC" then "violated:allocation not proportional to the input " ++ (impl.takeWhile (· != ' ')).toString
  else "ok"

def owner (op : String) : Option Runner :=
  match op with
  | "dec" | "cdec" | "ccdec" | "cb" | "addr" => some C01.run
  | "wifdec" => some C06.run
  | "xkey" => some C05.run
  | "b58dec" | "chkdec" | "bechdec" => some C07.run
  | "hist" => some C09.run
  | "txm" | "blk" | "ex" => some C11.run
  | "gcsraw" => some C13.run
  | _ => none

def run : Runner
  | op, args, impl =>
    let g := guard impl
    match op with
    | "scantime" =>
      some { model := "ok", prop := if impl == "ok" then "ok" else "violated:block scan cost grows super-polynomially " ++ impl }
    | "json" | "blkbytes" | "txbytes" =>
      -- external decoders (encoding/json, jsonpb, wire) are not modelled: only the guard is decided here
      some { model := if g == "ok" then impl else "no-fault", prop := g }
    | "bcb" => (C07.run "cb" args impl).map fun o => { o with prop := g }
    | _ =>
      match owner op with
      | none => none
      | some r => (r op args impl).map fun o => { o with prop := if g != "ok" then g else (if o.prop.startsWith "violated" then o.prop else "ok") }

end Bch.Drive.C08
