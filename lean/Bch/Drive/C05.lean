import Bch.Drive.C04
namespace Bch.Drive.C05
open Bch Bch.Drive Bch.Model Bch.Prim Bch.Model.HDKey Bch.Drive.C04

def childStr (k : XKey) (i : Nat) : String :=
  match Child X k i with
  | .ok c => Bytes.tok (String X c)
  | .error e => "err:" ++ errTok e

def xkeyObs : Except Err XKey → String
  | .error e => "err:" ++ errTok e
  | .ok k => s!"ok,{Bytes.tok (String X k)},{tokB k.isPrivate},{k.depth},{Bytes.toNatBE k.parentFP},{k.childNum},{childStr k 0},{childStr k hardenedKeyStart}"

/-- final key of a walk (none if an error occurred) -/
def walkKey : XKey → List String → Option (Except Err XKey)
  | k, [] => some (.ok k)
  | k, "N" :: rest => match Neuter X k with | .ok p => walkKey p rest | .error e => some (.error e)
  | k, t :: rest => do
    let i ← t.toNat?
    match Child X k i with
    | .ok c => walkKey c rest
    | .error e => some (.error e)

def run : Runner
  | "xkey", [_, s], impl => do
    let s ← bytes? s
    let prop := match impl.splitOn "," with
      | "ok" :: re :: _ => if re == Bytes.tok s then "ok" else "violated:accepted string does not re-serialise to itself"
      | _ => "ok"
    pure { model := xkeyObs (NewKeyFromString X s), prop }
  -- the raw constructor: String pads a short private scalar to 32 bytes; the string parses back to the same fields
  | "xnew", [_, ver, key, chain, pfp, depth, cn, priv], impl => do
    let ver ← bytes? ver; let key ← bytes? key; let chain ← bytes? chain; let pfp ← bytes? pfp
    let depth ← nat? depth; let cn ← nat? cn; let priv ← bool? priv
    let k : XKey := ⟨key, chain, depth, pfp, cn, ver, priv⟩
    let s := String X k
    let prop := match impl.splitOn " " with
      | [s', _, _, _, parsed] =>
        (match parsed.splitOn "," with
        | "ok" :: re :: _ => if re == s' then "ok" else "violated:reserialise"
        | _ => "violated:own string rejected")
      | _ => "violated:shape"
    let nb := String.join (Address.nets.map fun n => tokB (ver == n.hdPriv || ver == n.hdPub))
    let prop := match impl.splitOn " " with
      | [s', _, _, _, _, parsed, zeroed] =>
        (match parsed.splitOn "," with
        | "ok" :: re :: _ =>
          if re != s' then "violated:reserialise"
          else if zeroed != "Z:0:1" then "violated:Zero left key material behind (parent fingerprint / caller buffers not wiped)"
          else "ok"
        | _ => "violated:own string rejected")
      | _ => "violated:shape"
    -- after `Zero`: the fingerprint reads 0 and the three buffers the raw constructor was given are wiped (it stores the
    -- caller's slices: `Props/C15New.lean`, `C15_new_aliases_caller`)
    pure { model := s!"{Bytes.tok s} {nb} {tokB priv} {depth} {Bytes.toNatBE pfp} {xkeyObs (NewKeyFromString X s)} Z:0:1", prop }
  | "seedgen", [_, l], _ => do
    let l ← nat? l
    pure { model := if l < 16 ∨ l > 64 then "err:seedlen" else s!"ok:{l}:1", prop := "spec" }
  | "xrt", [_, net, seed, path], impl => do
    let ni ← nat? net
    let net ← Address.nets[ni]?
    let seed ← bytes? seed
    let path := if path == "-" then [] else path.splitOn ","
    let r ← match NewMaster X seed net.hdPriv with
      | .error e => some (.error e)
      | .ok m => walkKey m path
    match r with
    | .error e => pure { model := "noderive:err:" ++ errTok e }
    | .ok k =>
      let s := String X k
      let model := s!"{Bytes.tok s} {childStr k 0} {childStr k hardenedKeyStart} {xkeyObs (NewKeyFromString X s)}"
      -- round trip on the implementation's observation: parsed key has identical string and child behaviour
      let prop := match impl.splitOn " " with
        | [s', c0, ch, parsed] =>
          (match parsed.splitOn "," with
          | ["ok", re, _, _, _, _, pc0, pch] =>
            if re != s' then "violated:reserialise" else if pc0 != c0 || pch != ch then "violated:derivation behaviour" else "ok"
          | _ => "violated:own string rejected")
        | _ => "ok"
      pure { model, prop }
  | _, _, _ => none
end Bch.Drive.C05
