import Bch.Drive.Common
import Bch.Model.Base58
import Bch.Model.Bech32
import Bch.Prim.Sha2
namespace Bch.Drive.C07
open Bch Bch.Drive Bch.Model

def cbTok : Except Bech32.CBErr Bytes → String
  | .ok b => "ok:" ++ Bytes.tok b
  | .error _ => "err"

def run : Runner
  | "b58enc", [_, b], _ => do
    let b ← bytes? b
    pure { model := Bytes.tok (Base58.Encode b) }
  | "b58dec", [_, s], _ => do
    let s ← bytes? s
    pure { model := Bytes.tok (Base58.Decode s) }
  -- encode, decode the result: the impl observation must be "<enc> <dec>" with dec = input
  | "b58rt", [_, b], impl => do
    let b ← bytes? b
    let e := Base58.Encode b
    let prop := match impl.splitOn " " with
      | [_, d] => if d == Bytes.tok b then "ok" else "violated:decode(encode b)=b"
      | _ => "violated:shape"
    pure { model := s!"{Bytes.tok e} {Bytes.tok (Base58.Decode e)}", prop }
  -- decode a string over the alphabet, re-encode
  | "b58sr", [_, s], impl => do
    let s ← bytes? s
    let d := Base58.Decode s
    let overAlpha := s.all fun c => (Base58.b58 c).isSome
    let prop := match impl.splitOn " " with
      | [d', e'] =>
        if overAlpha then (if e' == Bytes.tok s then "ok" else "violated:encode(decode s)=s")
        else (if d' == "-" then "ok" else "violated:foreign->empty")
      | _ => "violated:shape"
    pure { model := s!"{Bytes.tok d} {Bytes.tok (Base58.Encode d)}", prop }
  | "chkenc", [_, v, b], _ => do
    let v ← nat? v; let b ← bytes? b
    pure { model := Bytes.tok (Base58.CheckEncode Prim.sha256d b (u8 v)) }
  | "chkdec", [_, s], _ => do
    let s ← bytes? s
    pure { model := match Base58.CheckDecode Prim.sha256d s with
      | .ok (p, v) => s!"ok:{v.toNat}:{Bytes.tok p}"
      | .error .invalidFormat => "err:format"
      | .error .checksum => "err:checksum" }
  | "cb", [_, f, t, pad, d], _ => do
    let f ← nat? f; let t ← nat? t; let pad ← bool? pad; let d ← bytes? d
    pure { model := cbTok (Bech32.ConvertBits d f t pad) }
  -- 8->5 pad then 5->8 nopad
  | "cbrt", [_, d], impl => do
    let d ← bytes? d
    let m := match Bech32.ConvertBits d 8 5 true with
      | .ok five => s!"{Bytes.tok five} {cbTok (Bech32.ConvertBits five 5 8 false)}"
      | .error _ => "err"
    let prop := match impl.splitOn " " with
      | [_, back] => if back == "ok:" ++ Bytes.tok d then "ok" else "violated:5to8(8to5 d)=d"
      | _ => "violated:shape"
    pure { model := m, prop }
  | "bechenc", [_, hrp, d], _ => do
    let hrp ← bytes? hrp; let d ← bytes? d
    pure { model := match Bech32.Encode hrp d with | some s => "ok:" ++ Bytes.tok s | none => "err" }
  | "bechdec", [_, s], impl => do
    let s ← bytes? s
    -- C07 "reject foreign characters": an accepted string has only printable ASCII (33..126) bytes
    let prop := if impl.startsWith "ok:" && s.any (fun b => b < 33 || b > 126) then "violated:foreign character accepted" else "-"
    pure { model := match Bech32.Decode s with
      | .ok (h, d) => s!"ok:{Bytes.tok h}:{Bytes.tok d}"
      | .error _ => "err", prop }
  -- purity probe: the harness reports whether any byte reachable from the arguments changed
  | "pure", _, impl => pure { model := "unchanged", prop := if impl == "unchanged" then "ok" else "violated:argument memory modified" }
  | _, _, _ => none

end Bch.Drive.C07
