import Bch.Drive.C09
namespace Bch.Drive.C20
open Bch Bch.Drive Bch.Model

/-- splitmix-style rng of the harness (harness/main.go `Rng`) -/
structure Rng where
  s : UInt64

def Rng.new (seed : UInt64) (id : String) : Rng :=
  let s0 : UInt64 := seed * 0x9E3779B97F4A7C15 + 0x1234567
  let s1 := id.toUTF8.toList.foldl (fun s c => s * 31 + c.toUInt64) s0
  -- one draw is discarded
  ⟨s1 + 0x9E3779B97F4A7C15⟩

def Rng.next (r : Rng) : Rng × UInt64 :=
  let s := r.s + 0x9E3779B97F4A7C15
  let z := s
  let z := (z ^^^ (z >>> 30)) * 0xBF58476D1CE4E5B9
  let z := (z ^^^ (z >>> 27)) * 0x94D049BB133111EB
  (⟨s⟩, z ^^^ (z >>> 31))

def item (seed : Nat) (g j : Nat) : Bytes :=
  Bytes.ofNatLE 8 seed ++ Bytes.ofNatLE 2 g ++ Bytes.ofNatLE 2 j

/-- items inserted by goroutine `g` (the choices come from its private rng, so they do not depend on the schedule) -/
def inserts (seed g nops : Nat) : List Bytes := Id.run do
  let mut r := Rng.new (UInt64.ofNat (seed + g)) "C20"
  let mut out : List Bytes := []
  for j in [0:nops] do
    let it := item seed g j
    let (r', v) := r.next
    r := r'
    match v.toNat % 8 with
    | 0 => out := it :: out
    | 1 => out := (it ++ List.replicate 20 0) :: out
    | 2 => out := Bloom.outPointBytes (it ++ List.replicate 20 0) j :: out
    | 6 => pure ()
    | 3 | 4 | 5 => pure ()
    | _ => out := it :: out
  return out.reverse

def run : Runner
  | "stress", [_, flen, nh, tw, k, nops, seed, withReload], impl => do
    let flen ← nat? flen; let nh ← nat? nh; let tw ← nat? tw
    let k ← nat? k; let nops ← nat? nops; let seed ← nat? seed
    if withReload == "1" then
      -- with Reload/Unload the final state depends on the schedule: only race freedom is decided (race detector)
      pure { model := "done 1", prop := if impl == "done 1" then "ok" else "violated:" ++ impl }
    else
      -- insertions commute (bitwise or), so any linearisation gives this bit array: a lost update shows up as a missing bit
      let m0 : Bloom.Msg := ⟨List.replicate flen 0, nh, UInt32.ofNat tw, 0⟩
      let all := (List.range k).flatMap fun g => inserts seed g nops
      let fin := all.foldl (fun m x => Bloom.addMsg m x) m0
      let model := s!"{Bytes.tok fin.bits} 1 1"
      pure { model, prop := "spec" }
  | "reloadatomic", _, impl =>
    -- an all-zero filter matches nothing, so in every sequential order of MatchTxAndUpdate / Reload calls nothing is
    -- ever inserted into it: any set bit in a replaced all-zero message is a non-linearizable history
    pure { model := "ok", prop := if impl == "ok" then "ok" else "violated:MatchTxAndUpdate not atomic w.r.t. Reload " ++ impl }
  | "reloadsame", _, impl =>
    -- Reload(m) while m is the loaded message changes nothing in any sequential order: every insertion survives
    pure { model := "ok", prop := if impl == "ok" then "ok" else "violated:insertion lost around a Reload of the loaded message " ++ impl }
  | "concquery", _, impl =>
    -- queries leave the filter unchanged (C09_query_pure), so every order of them answers true for inserted items
    pure { model := "ok", prop := if impl == "ok" then "ok" else "violated:inserted item reported absent under concurrent queries " ++ impl }
  | "scanconc", _, impl =>
    -- only race freedom is decided here (by the race detector); the result of a scan racing insertions depends on the schedule
    pure { model := "done", prop := if impl == "done" then "ok" else "violated:" ++ impl }
  | "gcsimm", _, impl =>
    -- "Golomb-coded set filters, being immutable": overwriting the constructor's inputs or an accessor's output
    -- never changes what a filter serialises to
    pure { model := "111111", prop := if impl == "111111" then "ok" else "violated:GCS filter shares memory with its inputs or outputs " ++ impl }
  | "gcsconc", _, impl => pure { model := "ok", prop := if impl == "ok" then "ok" else "violated:concurrent GCS queries interfere" }
  | _, _, _ => none

end Bch.Drive.C20
