import Bch.Drive.Common
import Bch.Model.TxSort
import Bch.Model.TxSortHeap
import Bch.Model.CoinSet
namespace Bch.Drive.C18
open Bch Bch.Drive Bch.Model Bch.Model.TxSort

def hashTok (t : String) : Option Bytes :=
  if t.length == 2 then (bytes? t).map fun b => List.replicate 32 (b.headD 0)
  else if t.length == 3 then
    match t.toList with
    | 'f' :: r => (bytes? (String.ofList r)).map fun b => b.headD 0 :: List.replicate 31 0
    | 'l' :: r => (bytes? (String.ofList r)).map fun b => List.replicate 31 0 ++ [b.headD 0]
    | 'm' :: r => (bytes? (String.ofList r)).map fun b => List.replicate 15 0 ++ [b.headD 0] ++ List.replicate 16 0
    | 'n' :: r => (bytes? (String.ofList r)).map fun b => List.replicate 16 0 ++ [b.headD 0] ++ List.replicate 15 0
    | _ => none
  else bytes? t

def parseIn (s : String) : Option TxIn :=
  match s.splitOn ":" with
  | [h, i, t] => do
    let h ← hashTok h
    let i ← nat? i
    let t ← nat? t
    pure ⟨h, i, t⟩
  | _ => none

def parseOut (s : String) : Option TxOut :=
  match s.splitOn ":" with
  | [v, sc] => do
    let v ← int? v
    let sc ← bytes? sc
    pure ⟨v, sc⟩
  | _ => none

def insTok (l : List TxIn) : String := tokList (fun i => s!"{Bytes.tok i.hash}:{i.index}:{i.tag}") l
def outsTok (l : List TxOut) : String := tokList (fun o => s!"{o.value}:{Bytes.tok o.script}") l

/-- specification-side keys (independent of `lessIn`/`lessOut`): BIP69 -/
def inKeyLe (a b : TxIn) : Bool :=
  let x := Bytes.toNatBE a.hash.reverse; let y := Bytes.toNatBE b.hash.reverse
  x < y || (x == y && a.index ≤ b.index)
def lexLe : Bytes → Bytes → Bool
  | [], _ => true
  | _ :: _, [] => false
  | a :: as, b :: bs => a < b || (a == b && lexLe as bs)
def outKeyLe (a b : TxOut) : Bool := a.value < b.value || (a.value == b.value && lexLe a.script b.script)

def chain (le : α → α → Bool) : List α → Bool
  | a :: b :: r => le a b && chain le (b :: r)
  | _ => true

def isPermIn (a b : List TxIn) : Bool := a.length == b.length && a.all (fun x => a.count x == b.count x)
def isPermOut (a b : List TxOut) : Bool := a.length == b.length && a.all (fun x => a.count x == b.count x)

/-- the heap-level model (`Model/TxSortHeap.lean`) run on the harness's layout: both slices are the windows `[1:1+n]`
    of backing arrays that hold sentinel objects in front and in the spare capacity behind; `Sort`, `IsSorted` and
    `InPlaceSort` (Go's insertion-sort schedule) are executed and the frame clauses evaluated — the same clauses the
    harness observes on the real objects (`heapFrame` in harness/c18.go). "ok" or the clauses that fail. -/
def heapFrame (tx : Tx) : String :=
  let sI : TxIn := ⟨[], 7777, 0⟩
  let sO : TxOut := ⟨7777, [0x51]⟩
  let nI := tx.ins.length; let nO := tx.outs.length
  let h : TxSortHeap.Heap :=
    { ins := sI :: tx.ins ++ [sI, sI], outs := sO :: tx.outs ++ [sO, sO],
      inArrs := [List.range (nI + 3)], outArrs := [List.range (nO + 3)] }
  let t : TxSortHeap.MsgTx := ⟨⟨0, 1, nI, nI + 2⟩, ⟨0, 1, nO, nO + 2⟩⟩
  -- Sort
  let c := TxSortHeap.copyTx h t
  let r := TxSortHeap.inPlaceSortGo c.1 c.2
  let bad : List String := []
  let bad := if r.inArrs.take 1 != h.inArrs || r.outArrs.take 1 != h.outArrs then bad ++ ["sort:pointer-array-of-original-written"] else bad
  let bad := if r.ins.take h.ins.length != h.ins || r.outs.take h.outs.length != h.outs then bad ++ ["sort:object-of-original-written"] else bad
  let fresh := c.2.tin.arr ≥ h.inArrs.length && c.2.tout.arr ≥ h.outArrs.length &&
    (TxSortHeap.window (r.inArrs.getD c.2.tin.arr []) c.2.tin).all (· ≥ h.ins.length) &&
    (TxSortHeap.window (r.outArrs.getD c.2.tout.arr []) c.2.tout).all (· ≥ h.outs.length)
  let bad := if !fresh then bad ++ ["sort:result-shares-memory-with-original"] else bad
  -- IsSorted
  let bad := if (TxSortHeap.isSorted h t).1 != h then bad ++ ["issorted:writes"] else bad
  -- InPlaceSort
  let q := TxSortHeap.inPlaceSortGo h t
  let bad := if q.ins != h.ins || q.outs != h.outs then bad ++ ["inplace:object-written"] else bad
  let aI := q.inArrs.getD 0 []; let aO := q.outArrs.getD 0 []
  let outside := aI.take 1 == [0] && aI.drop (nI + 1) == [nI + 1, nI + 2] && aO.take 1 == [0] && aO.drop (nO + 1) == [nO + 1, nO + 2]
  let bad := if !outside then bad ++ ["inplace:written-outside-the-slice-window"] else bad
  let wI := TxSortHeap.window aI t.tin; let wO := TxSortHeap.window aO t.tout
  let permOk := wI.length == nI && wO.length == nO && (List.range' 1 nI).all (fun p => wI.count p == 1) && (List.range' 1 nO).all (fun p => wO.count p == 1)
  let bad := if !permOk then bad ++ ["inplace:window-not-a-permutation-of-the-same-pointers"] else bad
  -- the heap run denotes the value-level model's result
  let bad := if TxSortHeap.readTx q t != SortTx tx || TxSortHeap.readTx r c.2 != SortTx tx then bad ++ ["model:heap-run-differs-from-SortTx"] else bad
  if bad.isEmpty then "ok" else ",".intercalate bad

def run : Runner
  | "sort", [_, ins, outs], impl => do
    let ins ← list? parseIn ins
    let outs ← list? parseOut outs
    let tx : Tx := ⟨ins, outs⟩
    let s := SortTx tx
    -- above 12 elements `sort.Sort` is not insertion sort and not stable: among inputs with EQUAL (txid, index) the
    -- order of the remaining fields (the tag) is whatever the algorithm produces. There the model fixes the key
    -- sequence only: the implementation's list is echoed when it is a permutation of the inputs with the model's keys.
    let implCols := impl.splitOn " "
    let echo (col : Nat) : List TxIn :=
      if ins.length ≤ 12 then s.ins else
      match list? parseIn (implCols.getD col "") with
      | some theirs =>
        if isPermIn ins theirs && theirs.map (fun i => (i.hash, i.index)) == s.ins.map (fun i => (i.hash, i.index))
        then theirs else s.ins
      | none => s.ins
    let model := " ".intercalate [insTok (echo 0), outsTok s.outs, tokB (IsSorted tx), tokB (IsSorted s), "1", "1", "1", "1", insTok (echo 8), outsTok s.outs, heapFrame tx]
    -- C18 evaluated on the implementation's observation with the spec-side keys
    let prop := match impl.splitOn " " with
      | [si, so, was, isS, unch, metaOk, idem, indep, pi, po, heap] =>
        (match list? parseIn si, list? parseOut so, list? parseIn pi, list? parseOut po with
        | some si, some so, some pi, some po =>
          if !isPermIn ins si || !isPermOut outs so then "violated:not a permutation"
          else if !chain inKeyLe si || !chain outKeyLe so then "violated:not in BIP69 order"
          else if was != tokB (chain inKeyLe ins && chain outKeyLe outs) then "violated:IsSorted wrong on the original"
          else if isS != "1" || idem != "1" then "violated:not idempotent"
          else if unch != "1" || indep != "1" then "violated:original modified or shared"
          else if metaOk != "1" then "violated:other fields changed"
          else if heap != "ok" then s!"violated:memory written outside the specified frame ({heap})"
          else if !isPermIn ins pi || !isPermOut outs po || !chain inKeyLe pi || !chain outKeyLe po then "violated:InPlaceSort"
          else if pi.map (fun i => (i.hash, i.index)) != si.map (fun i => (i.hash, i.index)) || po != so then "violated:in-place order differs"
          else "ok"
        | _, _, _, _ => "violated:shape")
      | _ => "violated:shape"
    pure { model, prop }
  | _, _, _ => none
end Bch.Drive.C18

namespace Bch.Drive.C19
open Bch Bch.Drive Bch.Model Bch.Model.CoinSet

def parseCoin (i : Nat) (s : String) : Option Coin :=
  match s.splitOn ":" with
  | [v, c] => do
    let v ← int? v
    let c ← int? c
    pure ⟨i, v, c⟩
  | _ => none

def parseCoins (s : String) : Option (List Coin) :=
  if s == "-" then some [] else ((s.splitOn ",").zipIdx.mapM fun (t, i) => parseCoin i t)

def idsTok (l : List Coin) (sep : String := ",") : String := if l.isEmpty then "-" else sep.intercalate (l.map fun c => toString c.id)

def sumV (l : List Coin) : Int := l.foldl (fun a c => a + c.value) 0
def sumVA (l : List Coin) : Int := l.foldl (fun a c => a + c.valueAge) 0

/-- is there a qualifying prefix of `l` of length ≤ maxInputs shorter than `k`? returns the shortest such length -/
def shortestPrefix (target minChange : Int) (maxInputs : Int) (l : List Coin) : Option Nat :=
  (List.range (l.length + 1)).find? fun k => k ≥ 1 ∧ (k : Int) ≤ maxInputs ∧ satisfiesTargetValue target minChange (sumV (l.take k))

def run : Runner
  | "sel", [_, sel, mi, mc, ma, tg, coins], impl => do
    let mi ← int? mi; let mc ← int? mc; let ma ← int? ma; let tg ← int? tg
    let coins ← parseCoins coins
    let r ← match sel with
      | "minindex" => some (minIndex mi mc tg coins)
      | "minnumber" => some (minNumber mi mc tg coins)
      | "maxvalueage" => some (maxValueAge mi mc tg coins)
      | "minpriority" => some (minPriority (coins.length + 2) mi mc ma tg coins)
      | _ => none
    let model := match r with
      | none => "none"
      | some cs =>
        -- (an observation ending in " ?" - the selector returned another implementation of the Coins interface - is a DIFF)
        s!"ok:{idsTok cs.coins} {cs.coins.length}/{cs.totalValue}/{cs.totalValueAge}"
    -- the predicates below look at the id list (first token); the totals token is compared with the model's
    let impl := (impl.splitOn " ").headD impl
    -- C19 on the implementation's selection
    let prop := if impl == "none" then
        -- the three prefix selectors must fail only when no qualifying prefix exists
        (match sel with
         | "minindex" => if (shortestPrefix tg mc mi coins).isSome then "violated:failed although a prefix qualifies" else "ok"
         | "minnumber" => if (shortestPrefix tg mc mi (sortByValueDesc coins)).isSome then "violated:failed although a prefix qualifies" else "ok"
         | "maxvalueage" => if (shortestPrefix tg mc mi (sortByValueAgeDesc coins)).isSome then "violated:failed although a prefix qualifies" else "ok"
         | _ => "ok")
      else if !impl.startsWith "ok:" then "violated:" ++ impl
      else match list? nat? (impl.drop 3).toString with
        | none => "violated:shape"
        | some ids =>
          let chosen := ids.filterMap fun i => coins[i]?
          if chosen.length != ids.length then "violated:coin not from the offered list"
          else if ids.eraseDups.length != ids.length then "violated:coin used twice"
          else if (ids.length : Int) > mi then "violated:more than MaxInputs"
          else if !satisfiesTargetValue tg mc (sumV chosen) then "violated:total neither target nor target+minChange"
          else match sel with
            | "minindex" =>
              if ids != List.range ids.length then "violated:not a prefix"
              else if shortestPrefix tg mc mi coins != some ids.length then "violated:not the shortest prefix" else "ok"
            | "minnumber" =>
              let srt := sortByValueDesc coins
              if (chosen.map (·.value)) != (srt.take ids.length).map (·.value) then "violated:not a prefix of the value-descending order"
              else if shortestPrefix tg mc mi srt != some ids.length then "violated:not the shortest prefix" else "ok"
            | "maxvalueage" =>
              let srt := sortByValueAgeDesc coins
              if (chosen.map (·.valueAge)) != (srt.take ids.length).map (·.valueAge) then "violated:not a prefix of the value-age-descending order"
              else if shortestPrefix tg mc mi srt != some ids.length then "violated:not the shortest prefix" else "ok"
            | _ =>
              if sumVA chosen < ma * (ids.length : Int) then "violated:average value-age below the minimum" else "ok"
    pure { model, prop }
  | "cs", [_, ops], impl => do
    let ops := if ops == "-" then [] else ops.splitOn ","
    let (st, _, toks) ← ops.foldlM (fun (acc : CS × Nat × List String) op =>
      let (s, next, toks) := acc
      match op.toList with
      | 'u' :: r =>
        (parseCoin next (String.ofList r)).map fun c =>
          let s := s.push c
          (s, next + 1, toks ++ [s!"./{s.coins.length}/{s.totalValue}/{s.totalValueAge}/{idsTok s.coins "."}"])
      | 'r' :: k =>
        -- the k-th coin object of this history pushed AGAIN (the same pointer): a coin set is a list, it may hold
        -- one coin several times
        let pushed := ops.filterMap fun op => match op.toList with | 'u' :: r => some (String.ofList r) | _ => none
        ((String.ofList k).toNat?.bind fun k => (pushed[k]?).bind (parseCoin k)).map fun c =>
          let s := s.push c
          (s, next, toks ++ [s!"./{s.coins.length}/{s.totalValue}/{s.totalValueAge}/{idsTok s.coins "."}"])
      | ['o'] =>
        let (s, c) := s.pop
        some (s, next, toks ++ [s!"{match c with | some c => toString c.id | none => "nil"}/{s.coins.length}/{s.totalValue}/{s.totalValueAge}/{idsTok s.coins "."}"])
      | ['s'] =>
        let (s, c) := s.shift
        some (s, next, toks ++ [s!"{match c with | some c => toString c.id | none => "nil"}/{s.coins.length}/{s.totalValue}/{s.totalValueAge}/{idsTok s.coins "."}"])
      | _ => none) (({} : CS), 0, [])
    let ins := if st.txInputs.isEmpty then "-" else ".".intercalate (st.txInputs.map fun i => s!"{i}@{i}")
    let model := s!"{tokList id toks} {ins} 1 1"
    -- totals never drift: evaluated on the implementation's per-step observation
    let prop :=
      let steps := match impl.splitOn " " with | s :: _ => if s == "-" then [] else s.splitOn "," | _ => []
      let bad := steps.filter fun t =>
        match t.splitOn "/" with
        | [_, n, tv, tva, ids] =>
          let idl := if ids == "-" then [] else ids.splitOn "."
          -- recompute from the ids: coin i is the i-th pushed coin
          let pushed := ops.filterMap fun op => match op.toList with | 'u' :: r => some (String.ofList r) | _ => none
          let cs := idl.filterMap fun i => i.toNat?.bind fun k => (pushed[k]?).bind (parseCoin k)
          !(n == toString cs.length && tv == toString (sumV cs) && tva == toString (sumVA cs))
        | _ => true
      if bad.isEmpty then "ok" else "violated:totals drift"
    pure { model, prop }
  -- SimpleCoin: value, value-age = confirmations x value, index, confirmations, txid, script of the referenced output
  | "simple", [_, vals, ix, confs], _ => do
    let vals ← list? int? vals
    let ix ← nat? ix
    let confs ← int? confs
    let v := vals.getD ix 0
    pure { model := s!"{v} {confs * v} {ix} {confs} 1 51{Bytes.tok [UInt8.ofNat ix]}", prop := "spec" }
  | _, _, _ => none
end Bch.Drive.C19
