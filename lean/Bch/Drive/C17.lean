import Bch.Drive.Common
import Bch.Model.Amount
namespace Bch.Drive.C17
open Bch Bch.Drive Bch.Model Bch.Prim

/-- nearest integer to m·2^e, ties away from zero (exact) -/
def nearestAway (m : Int) (e : Int) : Int :=
  if e ≥ 0 then m * (2 : Int) ^ e.toNat
  else
    let d : Int := (2 : Int) ^ (-e).toNat
    let a := m.natAbs
    let q := (2 * a + d.natAbs) / (2 * d.natAbs)    -- floor(|x| + 1/2)
    if m < 0 then -(q : Int) else q

def amtTok : Option Int → String
  | none => "err"
  | some v => s!"ok:{v}"

/-- parse "-?digits(.digits)?" to (numerator, denominator = 10^k) -/
def parseDecimal (s : String) : Option (Int × Nat) :=
  let (neg, body) := if s.startsWith "-" then (true, (s.drop 1).toString) else (false, s)
  match body.splitOn "." with
  | [ip] => if ip.isEmpty || !ip.all Char.isDigit then none else
      some ((if neg then -1 else 1) * (ip.toNat! : Int), 1)
  | [ip, fp] => if ip.isEmpty || fp.isEmpty || !ip.all Char.isDigit || !fp.all Char.isDigit then none else
      some ((if neg then -1 else 1) * ((ip ++ fp).toNat! : Int), 10 ^ fp.length)
  | _ => none

def run : Runner
  -- newamt <bits>: NewAmount(f) and NewAmount(-f)
  | "newamt", [_, bits], impl => do
    let f := UInt64.ofNat (← nat? bits)
    let r1 := Amount.NewAmount f
    let r2 := Amount.NewAmount (F64.neg f)
    let model := s!"{amtTok r1} {amtTok r2}"
    let prop :=
      if F64.isNaN f || F64.isInf f then (if impl == "err err" then "ok" else "violated:NaN/Inf accepted")
      else
        let p := F64.mul f Amount.satoshiPerBitcoin
        match F64.decode p with
        | none => "-"
        | some (m, e) =>
          let want := nearestAway m e
          if want.natAbs ≥ 2^62 then "-"
          else if impl == s!"ok:{want} ok:{-want}" then "ok"
          else s!"violated:not nearest/odd (want {want})"
    pure { model, prop }
  | "mono", [_, b1, b2], impl => do
    let f1 := UInt64.ofNat (← nat? b1); let f2 := UInt64.ofNat (← nat? b2)
    let model := s!"{amtTok (Amount.NewAmount f1)} {amtTok (Amount.NewAmount f2)}"
    let prop := match impl.splitOn " " with
      | [x, y] =>
        (match (x.drop 3).toString.toInt?, (y.drop 3).toString.toInt? with
         | some a, some b => if F64.lt f2 f1 then "-" else if a ≤ b then "ok" else "violated:not monotone"
         | _, _ => "-")
      | _ => "-"
    pure { model, prop }
  | "rt", [_, a], impl => do
    let a ← int? a
    let model := s!"{amtTok (Amount.NewAmount (Amount.ToBCH a))} {(Amount.ToBCH a).toNat}"
    -- the round trip, and ToBCH itself is the correctly rounded quotient a / 10^8
    let want := F64.roundRat a (10 ^ 8)
    let prop := if a.natAbs ≤ 2100000000000000 then
        (match impl.splitOn " " with
         | [rt, bits] => if rt != s!"ok:{a}" then "violated:ToBCH/NewAmount round trip"
                         else if bits != toString want.toNat && a != 0 then "violated:ToBCH is not the correctly rounded quotient" else "ok"
         | _ => "violated:shape") else "-"
    pure { model, prop }
  | "tounit", [_, a, u], impl => do
    let a ← int? a; let u ← int? u
    let model := toString (Amount.ToUnit a u).toNat
    -- correctly rounded quotient a / 10^(u+8)
    let want := if u + 8 ≥ 0 then F64.roundRat a (10 ^ (u + 8).toNat) else F64.roundRat (a * 10 ^ (-(u + 8)).toNat) 1
    let prop := if a.natAbs ≤ 2100000000000000 ∧ -12 ≤ u ∧ u ≤ 12 then
        (if impl == toString want.toNat || (a == 0) then "ok" else "violated:not the correctly rounded quotient") else "-"
    pure { model, prop }
  | "fmt", [_, a, u], impl => do
    let a ← int? a; let u ← int? u
    let model := Bytes.tok (Bytes.ofString (Amount.Format a u))
    let prop := if !(a.natAbs ≤ 2100000000000000 ∧ -12 ≤ u ∧ u ≤ 12) then "-" else
      match Bytes.ofTok impl with
      | none => "violated:shape"
      | some bs =>
        let s := String.fromUTF8! (ByteArray.mk bs.toArray)
        let label := " " ++ Amount.unitString u
        if !s.endsWith label then "violated:label"
        else
          let num := (s.dropEnd label.length).toString
          match parseDecimal num with
          | none => "violated:not a decimal"
          | some (n, d) =>
            -- n/d = a * 10^-(u+8)
            let ok := if u + 8 ≥ 0 then n * (10 : Int) ^ (u + 8).toNat == a * d else n == a * (10 : Int) ^ (-(u + 8)).toNat * d
            if ok then "ok" else "violated:text does not denote amount*10^-(unit+8)"
    pure { model, prop }
  | "mulf", [_, a, bits], _ => do
    let a ← int? a; let f := UInt64.ofNat (← nat? bits)
    pure { model := toString (Amount.MulF64 a f) }
  | _, _, _ => none

end Bch.Drive.C17
