import Bch.Drive.Common
import Bch.Drive.Ext
namespace Bch.Drive.C01
open Bch Bch.Drive Bch.Model Bch.Model.Address

def X := realExt

def errTok : Err → String
  | .checksumMismatch => "checksum" | .unknownAddressType => "unktype"
  | .addressCollision => "collision" | .unknownFormat => "unkformat" | .other => "other"

def kindTok : Addr → String
  | .pkh .. => "pkh" | .sh .. => "sh" | .sh32 .. => "sh32"
  | .legacyPkh .. => "lpkh" | .legacySh .. => "lsh" | .pubKey .. => "pk"

def netBits (a : Addr) : String := String.join (nets.map fun n => tokB (IsForNet a n))

def decObs : Except Err Addr → String
  | .error e => "err," ++ errTok e
  | .ok a => s!"ok,{kindTok a},{Bytes.tok (ScriptAddress X a)},{Bytes.tok (EncodeAddress X a)},{Bytes.tok (String X a)},{netBits a}"

def construct (kind : String) (net : Net) (p : Bytes) : Option (Except Err Addr) :=
  match kind with
  | "pkh" => some (newPkh p net.cashPrefix)
  | "sh" => some (newSh p net.cashPrefix)
  | "sh32" => some (newSh32 p net.cashPrefix)
  | "slppkh" => some (newPkh p net.slpPrefix)
  | "slpsh" => some (newSh p net.slpPrefix)
  | "slpsh32" => some (newSh32 p net.slpPrefix)
  | "lpkh" => some (newLegacyPkh p net.pkhID)
  | "lsh" => some (newLegacySh p net.shID)
  | "pk" => some (newPubKey X p net)
  | "shs" => some (newSh (X.hash160 p) net.cashPrefix)
  | "sh32s" => some (newSh32 (X.hash256 p) net.cashPrefix)
  | "lshs" => some (newLegacySh (X.hash160 p) net.shID)
  | _ => none

def upper (s : Bytes) : Bytes := s.map fun c => if 97 ≤ c ∧ c ≤ 122 then c - 32 else c

def renderings (kind : String) (net : Net) (a : Addr) : List Bytes :=
  let s := String X a
  if kind == "lpkh" || kind == "lsh" || kind == "lshs" then [s]
  else if kind == "pk" then [s, upper s]
  else
    let pre := if kind.startsWith "slp" then net.slpPrefix else net.cashPrefix
    [s, upper s, pre ++ [58] ++ s, upper (pre ++ [58] ++ s)]

/-- the round-trip predicate of C01 evaluated on the implementation's observation -/
def propAddr (kind : String) (netIx : Nat) (net : Net) (impl : String) : String :=
  match impl.splitOn " " with
  | enc :: str :: script :: _bits :: rs =>
    let slp := kind.startsWith "slp"
    if slp && net.slpPrefix.isEmpty then "ok"   -- SLP forms only on nets that define an SLP prefix
    else
    let expectKind := match kind with
      | "slppkh" => "pkh" | "slpsh" => "sh" | "slpsh32" => "sh32" | "shs" => "sh" | "sh32s" => "sh32" | "lshs" => "lsh"
      | k => k
    let bad := rs.filterMap fun r =>
      match r.splitOn "," with
      | ["ok", k, sc, reenc, restr, bits] =>
        if k != expectKind then some "kind"
        else if sc != script then some "script"
        else if reenc != enc then some "reencode"
        else if restr != str then some "string"
        else if !slp && (bits.toList.getD netIx '0') != '1' then some "isfornet"
        else none
      | _ => some "rejected"
    match bad with
    | [] => if rs.isEmpty then "violated:no-renderings" else "ok"
    | b :: _ => "violated:roundtrip:" ++ b
  | _ => "ok"   -- constructor error: nothing to round-trip

def cbTok : Option Bytes → String
  | some b => "ok:" ++ Bytes.tok b
  | none => "err"

def run : Runner
  | "addr", [_, kind, net, payload], impl => do
    let ni ← nat? net
    let net ← nets[ni]?
    let p ← bytes? payload
    let c ← construct kind net p
    match c with
    | .error _ => pure { model := "ctorerr", prop := if impl == "ctorerr" then "ok" else "-" }
    | .ok a =>
      let head := [Bytes.tok (EncodeAddress X a), Bytes.tok (String X a), Bytes.tok (ScriptAddress X a), netBits a]
      let rs := (renderings kind net a).map fun r => decObs (DecodeAddress X r net)
      pure { model := " ".intercalate (head ++ rs), prop := propAddr kind ni net impl }
  -- after the registration of a network with P2PKH id 5 and P2SH id 0 both ids denote both kinds: a 20-byte legacy
  -- payload with version 0 or 5 is ambiguous; everything else decodes as before
  | "collide", [_, net, s], _ => do
    let ni ← nat? net
    let net ← nets[ni]?
    let s ← bytes? s
    let r := DecodeAddress X s net
    let m := match r with
      | .ok (.legacyPkh _ 0) | .ok (.legacySh _ 5) => "err,collision"
      | _ => decObs r
    pure { model := m, prop := "spec" }
  | "dec", [_, net, s], impl => do
    let ni ← nat? net
    let net ← nets[ni]?
    let s ← bytes? s
    -- C02 predicate on the implementation's observation
    let prop := match impl.splitOn "," with
      | ["ok", k, _sc, reenc, restr, bits] =>
        let lower := lowerASCII s
        let strip (pre : Bytes) (x : Bytes) : Bytes :=
          if !pre.isEmpty && (pre ++ [58]).isPrefixOf x then x.drop (pre.length + 1) else x
        let isCash := k == "pkh" || k == "sh" || k == "sh32"
        if isCash then
          let n1 := strip net.cashPrefix lower
          let n2 := strip net.slpPrefix lower
          let canon := Bytes.ofTok reenc
          if canon != some n1 && canon != some n2 then "violated:canonical"
          -- an accepted string that carries the cash prefix belongs to the network asked for
          else if n1 != lower && (bits.toList.getD ni '0') != '1' then "violated:cash-net-membership"
          else "ok"
        else if k == "pk" then (if Bytes.ofTok restr == some lower then "ok" else "violated:canonical-pubkey")
        else (if Bytes.ofTok reenc == some s then "ok" else "violated:canonical-legacy")
      | _ => "ok"
    pure { model := decObs (DecodeAddress X s net), prop }
  -- conv <kind> <net> <hash> <target net>: cash -> slp -> cash conversions and their string forms
  | "conv", [_, kind, net, payload, tnet], _ => do
    let net ← nets[(← nat? net)]?
    let tnet ← nets[(← nat? tnet)]?
    let p ← bytes? payload
    let c ← construct kind net p
    match c with
    | .error _ => pure { model := "ctorerr" }
    | .ok a =>
      let tok : Except Err Addr → String
        | .ok x => s!"{kindTok x},{Bytes.tok (EncodeAddress X x)},{netBits x}"
        | .error e => "err," ++ errTok e
      let s1 := ConvertCashToSlp a tnet
      let s2 := match s1 with | .ok x => ConvertSlpToCash x tnet | .error e => .error e
      pure { model := s!"{tok s1} {tok s2} {tok (ConvertSlpToCash a tnet)}" }
  | "custnet", [_, pfx, _kind, h], _ => do
    -- caller-defined, unregistered parameters (a copy of mainnet with another CashAddr prefix): an address is for the
    -- network whose prefix it carries; the string form round-trips when the prefix is lower case (the decoder compares
    -- the lower-cased input with the prefix as given, so a prefix with capitals can be encoded but never decoded)
    let pfx ← bytes? pfx
    let h ← bytes? h
    if h.length != 20 then none
    let lower := pfx.all fun c => !(c ≥ 65 && c ≤ 90)
    -- the string itself is the model's encoding with the custom prefix (type 0 = P2PKH, 1 = P2SH)
    let str := CashAddr.checkEncodeCashAddress h pfx (if _kind == "pkh" then 0 else 1)
    pure { model := s!"{Bytes.tok str} {if lower then "1 1 1 1 1" else "1 1 E"}", prop := "spec" }
  | "pk2pkh", [_, net, ser], _ => do
    let net ← nets[(← nat? net)]?
    let ser ← bytes? ser
    match newPubKey X ser net with
    | .error _ => pure { model := "ctorerr" }
    | .ok a => pure { model := match AddressPubKeyHash X a with
        | some h => s!"{Bytes.tok (ScriptAddress X h)},{Bytes.tok (EncodeAddress X h)},{netBits h}"
        | none => "none" }
  -- SetFormat changes how the key serialises (and with it the script payload, the P2PKH form and the string) and
  -- nothing else; the typed accessors agree with the payload (no "!..." marker)
  | "pkfmt", [_, net, ser], _ => do
    let net ← nets[(← nat? net)]?
    let ser ← bytes? ser
    match newPubKey X ser net with
    | .ok (.pubKey f0 pt id) =>
      let one (f : Nat) : String :=
        let a := Addr.pubKey f pt id
        let pkh := match AddressPubKeyHash X a with | some h => Bytes.tok (EncodeAddress X h) | none => "none"
        s!"{f},{Bytes.tok (ScriptAddress X a)},{Bytes.tok (EncodeAddress X a)},{Bytes.tok (String X a)},{pkh}"
      pure { model := " ".intercalate (toString f0 :: [0, 1, 2, 0].map one), prop := "spec" }
    | _ => pure { model := "ctorerr" }
  | "conc", _, impl =>
    -- address construction/encoding are functions of their arguments: concurrent use must agree with sequential use
    pure { model := "ok", prop := if impl == "ok" then "ok" else "violated:results depend on concurrent use " ++ impl }
  | "pm", [_, v], _ => do
    let v ← bytes? v
    pure { model := toString (CashAddr.polyMod v) }
  | "cb", [_, f, t, pad, d], _ => do
    let f ← nat? f; let t ← nat? t; let pad ← bool? pad; let d ← bytes? d
    pure { model := cbTok (CashAddr.convertBits d f t pad) }
  | "pack", [_, t, h], _ => do
    let t ← nat? t; let h ← bytes? h
    pure { model := cbTok (CashAddr.packAddressData t h) }
  | "cenc", [_, t, pre, h], _ => do
    let t ← nat? t; let pre ← bytes? pre; let h ← bytes? h
    pure { model := Bytes.tok (CashAddr.checkEncodeCashAddress h pre t) }
  | "cdec", [_, s], _ => do
    let s ← bytes? s
    pure { model := match CashAddr.DecodeCashAddress s with
      | .ok (p, d) => s!"ok,{Bytes.tok p},{Bytes.tok d}"
      | .error .checksumMismatch => "err,checksum"
      | .error _ => "err,other" }
  | "ccdec", [_, s], _ => do
    let s ← bytes? s
    let (pre, r) := CashAddr.checkDecodeCashAddress s
    pure { model := match r with
      | .ok (d, t) => s!"ok,{Bytes.tok pre},{Bytes.tok d},{t}"
      | .error (.decode .checksumMismatch) => s!"err,checksum,{Bytes.tok pre}"
      | .error .unknownType => s!"err,unktype,{Bytes.tok pre}"
      | .error _ => s!"err,other,{Bytes.tok pre}" }
  | _, _, _ => none

end Bch.Drive.C01
