import Bch.Drive.C10
import Bch.Model.MerkleSelect
namespace Bch.Drive.C11
open Bch Bch.Drive Bch.Model Bch.Drive.C10

def expandHash (s : String) : Option Bytes := do
  let b ← bytes? s
  pure (if b.length = 1 then List.replicate 32 (b.headD 0) else b)

def run : Runner
  | "mb", [_, n, _salt, bits, _dups], impl => do
    let n ← nat? n
    let (ext, res) ← splitExt impl
    let leaves ← (ext.splitOn ",").mapM bytes?
    let sel := bits.toList.map (· == '1')
    -- `TxInSet` compares hashes, so a duplicate of a chosen transaction is chosen as well
    let chosen := (leaves.zip sel).filterMap fun (h, b) => if b then some h else none
    let mb := leaves.map fun h => chosen.contains h
    -- `NewMerkleBlockWithTxnSet` as modelled (selection by hash membership, Model/MerkleSelect.lean)
    let (msg, ixs) := MerkleSelect.buildWithTxnSet comb leaves chosen zero32
    let model := s!"EXT {ext} RES {mmsgTok msg} {natsTok ixs} {extractTok msg}"
    -- C11 on the implementation's observation: extraction returns the merkle root and exactly the chosen hashes/positions
    let distinct := leaves.eraseDups.length == leaves.length
    -- duplicate transactions: two EQUAL sibling hashes make the extractor reject the proof the builder produced
    -- (the CVE-2012-2459 guard) - the round trip the property promises "for every block" fails there (known finding)
    let rejectedOwn := match res.splitOn " " with
      | [_, _, ex] => ex.startsWith "nil/"
      | _ => false
    -- only when the MODEL's extraction of the model's own proof is refused as well (equal siblings really occur)
    let prop := if !distinct && rejectedOwn && (extractTok msg).startsWith "nil/" && leaves.length == n && n > 0 then
        "violated:built proof rejected by extraction (equal sibling hashes, CVE-2012-2459 guard)"
      else if !distinct || leaves.length != n then "-" else
      match res.splitOn " " with
      | [_, idx, ex] =>
        let want := (List.range n).filter fun i => mb.getD i false
        let root := Merkle.calcHash comb (fun i => leaves.getD i zero32) n (Merkle.height n) 0
        if idx != natsTok want then "violated:index list"
        else if ex != s!"{Bytes.tok root}/{hashesTok (want.map fun i => leaves.getD i zero32)}/{natsTok want}/0/same" then "violated:extract(build) round trip"
        else "ok"
      | _ => "violated:shape"
    pure { model, prop }
  | "ex", [_, n, hs, flags], _ => do
    let n ← nat? n
    let hs ← list? expandHash hs
    let flags ← bytes? flags
    -- `extractMsg` is proved equal to the parser-style independent evaluation (Props/C12), so a DIFF is a soundness violation
    pure { model := extractTok ⟨n, hs, flags⟩, prop := "spec" }
  | "exlim", [_, n, hs, flags], _ => do
    -- the same evaluation while the process-wide block size setting of bchd (wire.SetLimits) is larger: the bound on the
    -- transaction count is the exported constant fixed when the package was initialised, not the current setting
    let n ← nat? n
    let hs ← list? expandHash hs
    let flags ← bytes? flags
    pure { model := extractTok ⟨n, hs, flags⟩, prop := "spec" }
  | op, args, impl => C10.run op args impl

end Bch.Drive.C11
