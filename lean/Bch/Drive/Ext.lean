import Bch.Model.Address
import Bch.Prim.Sha2
import Bch.Prim.Ripemd160
import Bch.Prim.Secp256k1
/- The executable instantiation of the external-code parameter pack. -/
namespace Bch.Drive
open Bch Bch.Prim

def ptOfBytes (b : Bytes) : Secp.Point := .aff (Secp.bytesToNat (b.take 32)) (Secp.bytesToNat (b.drop 32))

def realExt : Model.Address.Ext where
  sha256d := sha256d
  hash160 := fun b => ripemd160 (sha256 b)
  hash256 := sha256d
  parsePub := fun b => match Secp.parsePubKey b with
    | some (.aff x y) => some (Secp.natToBytes32 x ++ Secp.natToBytes32 y)
    | _ => none
  serPub := fun fmt pt =>
    match fmt with
    | 0 => Secp.serUncompressed (ptOfBytes pt)
    | 1 => Secp.serCompressed (ptOfBytes pt)
    | _ => Secp.serHybrid (ptOfBytes pt)

end Bch.Drive
