import Bch.Drive.Common
import Bch.Drive.C10
import Bch.Model.BlockCache
import Bch.Prim.Sha2
namespace Bch.Drive.C16
open Bch Bch.Drive Bch.Model Bch.Model.BlockCache

def parseLoc (s : String) : Option (Nat × Nat) :=
  match s.splitOn "+" with
  | [a, b] => do pure ((← nat? a), (← nat? b))
  | _ => none

def parseCall (s : String) : Option Call :=
  match s.toList with
  | 'T' :: r => (String.ofList r).toInt?.map .tx
  | 'H' :: r => (String.ofList r).toInt?.map .txHash
  | ['A'] => some .transactions
  | ['B'] => some .hash
  | ['S'] => some .bytes
  | ['L'] => some .txLoc
  | _ => none

/-- rename handles by first-seen order, as the harness does with real pointers -/
structure Names where
  seen : List Nat := []

def Names.id (n : Names) (h : Nat) : Names × String :=
  match n.seen.idxOf? h with
  | some i => (n, s!"p{i}")
  | none => ({ seen := n.seen ++ [h] }, s!"p{n.seen.length}")

def resTok (n : Names) : Res → Names × String
  | .tx h i hd => let (n, p) := n.id hd; (n, s!"tx:{Bytes.tok h}:{i}:{p}")
  | .outOfRange => (n, "oor")
  | .txs l =>
    let (n, ts) := l.foldl (fun (acc : Names × List String) (h, i, hd) =>
      let (n, p) := acc.1.id hd; (n, acc.2 ++ [s!"{Bytes.tok h}:{i}:{p}"])) (n, [])
    (n, "txs:" ++ (if ts.isEmpty then "-" else "/".intercalate ts))
  | .hash h hd => let (n, p) := n.id hd; (n, s!"hash:{Bytes.tok h}:{p}")
  | .bytes b hd => let (n, p) := n.id hd; (n, s!"bytes:{b.length}:{Bytes.tok ((Prim.sha256d b).take 8)}:{p}")
  | .locs l => (n, "locs:" ++ (if l.isEmpty then "-" else "/".intercalate (l.map fun (a, b) => s!"{a}+{b}")))

def run : Runner
  | "blk", [_, ctor, _ntx, _salt, _tok, _trailing, script], impl => do
    let (ext, _) ← C10.splitExt impl
    let W ← match ext.splitOn " " with
      | [ser, bh, txh, locs] => do
        pure ({ ser := ← bytes? ser, hash := ← bytes? bh, txHashes := ← list? bytes? txh, txLocs := ← list? parseLoc locs } : Wire)
      | _ => none
    let calls ← if script == "-" then some [] else (script.splitOn ",").mapM parseCall
    -- after fix e199915 the bytes constructor caches exactly the consumed prefix = wire serialisation
    let foreign ← if ctor == "msgbytesbad" || ctor == "raw" then bytes? _trailing else some []
    let s0 := if ctor == "msgbytesbad" || ctor == "raw" then initBytes foreign
              else if ctor == "msgbytesempty" then initBytes []
              else if ctor == "bytes" || ctor == "msgbytes" then initBytes W.ser else initMsg   -- "reader" / "buffer": nothing cached
    let (_, _, toks) := calls.foldl (fun (acc : St × Names × List String) c =>
        let (s, r) := step W acc.1 c
        let (n, t) := resTok acc.2.1 r
        (s, n, acc.2.2 ++ [t])) (s0, {}, [])
    let re := s!"{Bytes.tok W.hash}/{tokList Bytes.tok W.txHashes}/1"
    -- the model's observation is by construction "fresh computation from the wire message + stable identities",
    -- i.e. exactly what C16 prescribes
    if ctor == "raw" then
      -- NewBlockFromBytes caches the bytes it consumed. The model does the same (initBytes input); whether they are the
      -- serialisation of the parsed message is a law of the wire package (parse-then-write is the identity on accepted
      -- input) that `C16_cache_coherent` assumes - evaluated here on the real wire package
      let implRes := ((impl.splitOn " RES ").getD 1 "").splitOn " RE " |>.headD ""
      let mine := if toks.isEmpty then "-" else " ".intercalate toks
      -- only the re-parse section is taken over from the observation, and only when the bytes do not round-trip (it is
      -- then about the foreign bytes); everything else - EXT, RES, the height bookkeeping - is the model's own
      let implRe := (((impl.splitOn " RE ").getD 1 "").splitOn " ").headD ""
      pure { model := s!"EXT {ext} RES {mine} RE {if foreign == W.ser then re else implRe} height-ok",
             prop := if implRes != mine then "violated:differs from the specified value"
                     else if foreign != W.ser then "violated:the parsed bytes are cached as the serialisation but the wire package writes the parsed message differently (wire round trip)"
                     else "ok" }
    else if ctor == "msgbytesbad" then
      -- the model returns the supplied bytes unchanged (C16_blockAndBytes_vouched); the re-parse section is about those
      -- bytes, not about the message, and is not compared. The property's "serialised bytes equal a fresh computation
      -- from the wire message ... however it was constructed" fails here (known finding)
      let implRes := ((impl.splitOn " RES ").getD 1 "").splitOn " RE " |>.headD ""
      let mine := if toks.isEmpty then "-" else " ".intercalate toks
      let implRe := (((impl.splitOn " RE ").getD 1 "").splitOn " ").headD ""
      pure { model := s!"EXT {ext} RES {mine} RE {if foreign == W.ser then re else implRe} height-ok",
             prop := if implRes != mine then "violated:differs from the specified value"
                     else if foreign != W.ser then "violated:caller-supplied bytes returned as the serialisation (NewBlockFromBlockAndBytes trusts its caller)"
                     else "ok" }
    else
    pure { model := s!"EXT {ext} RES {if toks.isEmpty then "-" else " ".intercalate toks} RE {re} height-ok", prop := "spec" }
  -- blkbig: the block is too large to transcribe; the wire results arrive as digests and the accessors must
  -- reproduce them (TxLoc, Bytes, last transaction with its index, out-of-range error one past the end)
  | "blkbig", [_, _, ntx, _, _], impl => do
    let ntx ← nat? ntx
    let (ext, _) ← C10.splitExt impl
    match ext.splitOn " " with
    | [ld, bd, last] => pure { model := s!"EXT {ext} RES {ld} {bd} {last}:{ntx - 1} oor", prop := "spec" }
    | _ => none
  | "txw", [_, _, _], impl => do
    let (ext, _) ← C10.splitExt impl
    -- standalone wrapper (Model/TxCache.lean, Props/C16Tx.lean): hash memo = wire hash, one object; Index is -1 until
    -- SetIndex, then the last value set; SetIndex touches nothing else; MsgTx is the wrapped message itself
    pure { model := s!"EXT {ext} RES {ext} 1 -1 {ext} -1 7 -1 1 1 3 1", prop := "spec" }
  | _, _, _ => none

end Bch.Drive.C16
