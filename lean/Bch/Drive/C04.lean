import Bch.Drive.Common
import Bch.Drive.Ext
import Bch.Spec.BIP32
import Bch.Prim.Sha2
namespace Bch.Drive.C04
open Bch Bch.Drive Bch.Model Bch.Prim Bch.Model.HDKey

def realHD : HDExt Secp.Point where
  hmac512 := hmacSha512
  hash160 := fun b => ripemd160 (sha256 b)
  sha256d := sha256d
  n := Secp.n
  mulG := fun k => match Secp.mulG k with | .inf => none | p => some p
  add := fun a b => match Secp.add a b with | .inf => none | p => some p
  parse := fun b => if b.length = 33 then Secp.parsePubKey b else none
  serC := Secp.serCompressed
  serInf := 2 :: List.replicate 32 0

def X := realHD

def errTok : Err → String
  | .deriveHardFromPublic => "hardFromPublic" | .deriveBeyondMaxDepth => "beyondMaxDepth"
  | .notPrivExtKey => "notPriv" | .invalidChild => "invalidChild" | .unusableSeed => "unusableSeed"
  | .invalidSeedLen => "seedLen" | .badChecksum => "badChecksum" | .invalidKeyLen => "keyLen" | .other => "other"

def addrOf (net : Address.Net) (k : XKey) : Bytes :=
  CashAddr.checkEncodeCashAddress ((X.hash160 (pubKeyBytes X k)).take 20) net.cashPrefix 0

/-- observation of one key: string, neutered string, address, depth, parent fingerprint, child number -/
def keyObs (net : Address.Net) (k : XKey) : String :=
  let pub := match Neuter X k with | .ok p => Bytes.tok (String X p) | .error _ => "err"
  s!"{Bytes.tok (String X k)},{pub},{Bytes.tok (addrOf net k)},{k.depth},{Bytes.toNatBE k.parentFP},{k.childNum},{tokB k.isPrivate}"

/-- walk the path; "N" neuters -/
def walk (net : Address.Net) : XKey → List String → List String → Option (List String)
  | _, [], acc => some acc.reverse
  | k, "N" :: rest, acc =>
    match Neuter X k with
    | .ok p => walk net p rest (keyObs net p :: acc)
    | .error e => some (("err:" ++ errTok e) :: acc).reverse
  | k, t :: rest, acc => do
    let i ← t.toNat?
    match Child X k i with
    | .error e => some (("err:" ++ errTok e) :: acc).reverse
    | .ok c =>
      -- neutered-parent derivation for non-hardened steps
      let viaPub := if i < hardenedKeyStart then
          match Neuter X k with
          | .ok pk => (match Child X pk i with | .ok pc => Bytes.tok (String X pc) | .error e => "err:" ++ errTok e)
          | .error _ => "err"
        else "-"
      walk net c rest ((keyObs net c ++ "," ++ viaPub) :: acc)

-- ---- the same walk on the BIP32 specification
open Spec.BIP32 in
def specObs (net : Address.Net) (s : SKey Secp.Point) : String :=
  let str := serialize X net.hdPriv net.hdPub s
  let pub := serialize X net.hdPriv net.hdPub (neuter s)
  let addr := CashAddr.checkEncodeCashAddress ((X.hash160 (X.serC s.pub)).take 20) net.cashPrefix 0
  s!"{Bytes.tok str},{Bytes.tok pub},{Bytes.tok addr},{s.depth},{Bytes.toNatBE s.fp},{s.idx},{tokB s.priv.isSome}"

open Spec.BIP32 in
def specWalk (net : Address.Net) : SKey Secp.Point → List String → List String → Option (List String)
  | _, [], acc => some acc.reverse
  | s, "N" :: rest, acc => specWalk net (neuter s) rest (specObs net (neuter s) :: acc)
  | s, t :: rest, acc => do
    let i ← t.toNat?
    if s.depth = 255 then some ("err:beyondMaxDepth" :: acc).reverse
    else if s.priv.isNone ∧ i ≥ 2^31 then some ("err:hardFromPublic" :: acc).reverse
    else match child X s i with
    | none => some ("err:invalidChild" :: acc).reverse
    | some c =>
      let viaPub := if i < 2^31 then
          (match child X (neuter s) i with
           | some pc => Bytes.tok (serialize X net.hdPriv net.hdPub pc) | none => "err:invalidChild")
        else "-"
      specWalk net c rest ((specObs net c ++ "," ++ viaPub) :: acc)

def run : Runner
  | "hd", [_, net, seed, path], impl => do
    let ni ← nat? net
    let net ← Address.nets[ni]?
    let seed ← bytes? seed
    let path := if path == "-" then [] else path.splitOn ","
    let model ← match NewMaster X seed net.hdPriv with
      | .error e => some ("err:" ++ errTok e)
      | .ok m => (walk net m path [keyObs net m]).map (";".intercalate ·)
    let spec ← if seed.length < 16 ∨ seed.length > 64 then some "err:seedLen" else
      match Spec.BIP32.master X seed with
      | none => some "err:unusableSeed"
      | some m => (specWalk net m path [specObs net m]).map (";".intercalate ·)
    pure { model, prop := if impl == spec then "ok" else "violated:differs from BIP32: " ++ spec.take 200 }
  | _, _, _ => none

end Bch.Drive.C04
