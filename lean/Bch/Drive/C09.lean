import Bch.Drive.Common
import Bch.Model.Bloom
import Bch.Model.BloomObj
import Bch.Model.BloomTx
import Bch.Model.Merkle
import Bch.Prim.Sha2
namespace Bch.Drive.C09
open Bch Bch.Drive Bch.Model

def parseMsg (bits nh tw fl : String) : Option Bloom.Msg := do
  pure { bits := ← bytes? bits, nHash := ← nat? nh, tweak := UInt32.ofNat (← nat? tw), flags := ← nat? fl }

def parseOp (s : String) : Option Bloom.Op :=
  match s.splitOn ":" with
  | ["a", d] => (bytes? d).map .add
  | ["h", d] => (bytes? d).map .addHash
  | ["o", h, i] => do pure (.addOutPoint (← bytes? h) (← nat? i))
  | ["m", d] => (bytes? d).map .query
  | ["p", h, i] => do pure (.queryOutPoint (← bytes? h) (← nat? i))
  | ["r", b, n, t, f] => (parseMsg b n t f).map .reload
  | ["u"] => some .unload
  | ["l"] => some .isLoaded
  | _ => none

def bitsTok : Bloom.Filter → String
  | none => "nil"
  | some m => Bytes.tok m.bits

/-- item a query op asks about / an insert op inserts, as the byte string hashed -/
def opItem : Bloom.Op → Option (Bool × Bytes)   -- (isInsert, item)
  | .add d => some (true, d)
  | .addHash h => some (true, h)
  | .addOutPoint h i => some (true, Bloom.outPointBytes h i)
  | .query d => some (false, d)
  | .queryOutPoint h i => some (false, Bloom.outPointBytes h i)
  | _ => none

/-- C09 "no false negatives" evaluated on the implementation's answers: every item inserted while the
    filter was loaded (non-empty array or not) and not reloaded/unloaded since must be reported present -/
def noFalseNeg (f0 : Bloom.Filter) (ops : List Bloom.Op) (answers : List String) : String :=
  let rec go (loaded : Bool) (ins : List Bytes) : List Bloom.Op → List String → String
    | [], _ => "ok"
    | _, [] => "violated:shape"
    | op :: ops, a :: as =>
      match op with
      | .reload _ => go true [] ops as
      | .unload => go false [] ops as
      | .isLoaded => if a == tokB loaded then go loaded ins ops as else "violated:isLoaded"
      | _ =>
        match opItem op with
        | some (true, it) => go loaded (if loaded then it :: ins else ins) ops as
        | some (false, it) =>
          if !loaded then (if a == "0" then go loaded ins ops as else "violated:unloaded filter matched")
          else if ins.contains it && a != "1" then "violated:false negative"
          else go loaded ins ops as
        | none => go loaded ins ops as
  go f0.isSome [] ops answers

def run : Runner
  | "murmur", [_, seed, d], _ => do
    let seed ← nat? seed; let d ← bytes? d
    -- the model *is* the BIP37/MurmurHash3 definition, so a difference is a violation of bit-exactness
    pure { model := toString (Bloom.MurmurHash3 (UInt32.ofNat seed) d).toNat, prop := "spec" }
  | "hist", [_, b, n, t, f, ops], impl => do
    let m ← parseMsg b n t f
    let ops ← if ops == "-" then some [] else (ops.splitOn ";").mapM parseOp
    let (fin, ans) := ops.foldl (fun (st : Bloom.Filter × List String) op =>
        let (f', a) := Bloom.step st.1 op
        (f', (match a with | none => "." | some b => tokB b) :: st.2)) (some m, [])
    let model := s!"{tokList id ans.reverse} {bitsTok fin}"
    let implAns := match impl.splitOn " " with | [a, _] => if a == "-" then [] else a.splitOn "," | _ => []
    let nf := noFalseNeg (some m) ops implAns
    pure { model, prop := if nf != "ok" then nf else "spec" }
  | "histobj", [_, b, n, t, f, ops], impl => do
    let s0 : BloomObj.State ← if b == "nil" then some ⟨[], none⟩ else (parseMsg b n t f).map fun m => ⟨[m], some 0⟩
    let parseObjOp (s : String) : Option BloomObj.Op :=
      match s.splitOn ":" with
      | ["R", k] => (nat? k).map .reloadObj
      | ["g"] => some .getMsg
      | _ => (parseOp s).map .base
    let ops ← if ops == "-" then some [] else (ops.splitOn ";").mapM parseObjOp
    let (fin, ans) := ops.foldl (fun (st : BloomObj.State × List String) op =>
        let (s', a) := BloomObj.stepObj st.1 op
        (s', a.getD "." :: st.2)) (s0, [])
    let objTok (m : Bloom.Msg) : String := s!"{Bytes.tok m.bits}/{m.nHash}/{m.tweak.toNat}/{m.flags}"
    let model := s!"{tokList id ans.reverse} {if fin.objs.isEmpty then "-" else "|".intercalate (fin.objs.map objTok)}"
    -- the specification is the object-level model itself (what is inserted into an object stays in it; Reload
    -- re-points and writes nothing; MsgFilterLoad hands out the loaded object)
    pure { model, prop := "spec" }
  | "newfilter", [_, _, tw, _, fl], impl => do
    let prop := match impl.splitOn " " with
      | [len, nh, tw', fl'] =>
        (match len.toNat?, nh.toNat? with
         | some l, some h => if l ≤ 36000 ∧ h ≤ 50 ∧ tw' == tw ∧ fl' == fl then "ok" else "violated:sizing outside wire limits"
         | _, _ => "violated:shape")
      | _ => "violated:shape"
    -- the exact size depends on math.Log; only the limits clause is decided (see DESIGN C09)
    pure { model := impl, prop }
  | _, _, _ => none

end Bch.Drive.C09
