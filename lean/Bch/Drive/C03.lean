import Bch.Drive.Common
import Bch.Drive.C01
import Bch.Drive.C07
namespace Bch.Drive.C03
open Bch Bch.Drive Bch.Model

def hamming (a b : Bytes) : Nat := (a.zip b).foldl (fun n (x, y) => if x = y then n else n + 1) 0

def bdecTok (s : Bytes) : String :=
  match Bech32.Decode s with
  | .ok (h, d) => s!"ok:{Bytes.tok h}:{Bytes.tok d}"
  | .error _ => "err"

def cdecTok (s : Bytes) : String :=
  match CashAddr.DecodeCashAddress s with
  | .ok (p, d) => s!"ok,{Bytes.tok p},{Bytes.tok d}"
  | .error .checksumMismatch => "err,checksum"
  | .error _ => "err,other"

def run : Runner
  | "bpm", [_, vs], _ => do
    let vs ← list? nat? vs
    pure { model := toString (Bech32.polymod vs) }
  | "bdec", [_, s], _ => do
    let s ← bytes? s
    pure { model := bdecTok s }
  -- csub <valid> <mutated>: if `valid` is accepted (by the model) and `mutated` differs from it in 1..5 positions
  -- after the prefix, the implementation must reject `mutated`
  | "csub", [_, v, m], impl => do
    let v ← bytes? v; let m ← bytes? m
    let applicable := (CashAddr.DecodeCashAddress v).toBool && v.length = m.length &&
      (let h := hamming v m; 1 ≤ h ∧ h ≤ 5) &&
      (let k := v.idxOf 58; v.take (k+1) == m.take (k+1)) && v.length - (v.idxOf 58 + 1) ≤ 112
    pure { model := cdecTok m,
           prop := if !applicable then "-" else if impl.startsWith "err" then "ok" else "violated:accepted ≤5 substitutions" }
  | "bsub", [_, v, m], impl => do
    let v ← bytes? v; let m ← bytes? m
    let sep := (Bech32.lastIndexOf 49 v).getD 0
    let inScope := (Bech32.Decode v).toBool && v.length = m.length &&
      (let h := hamming v m; 1 ≤ h ∧ h ≤ 4) && v.take (sep+1) == m.take (sep+1)
    let movesSep := (m.drop (sep+1)).contains 49
    let applicable := inScope && !movesSep
    pure { model := bdecTok m,
           prop := if inScope && movesSep then
                     -- the property text does not exclude '1' as a replacement character; the theorem has to (C03_bech32, h1')
                     (if impl.startsWith "err" then "ok" else "violated:accepted ≤4 substitutions one of which moves the separator")
                   else if !applicable then "-" else if impl.startsWith "err" then "ok"
                   else if m == v.map Bech32.toUpper || m == v.map Bech32.toLower then
                     "violated:accepted a case variant of an accepted string (hrp without letters)"
                   else "violated:accepted ≤4 substitutions" }
  | op, args, impl => C01.run op args impl

end Bch.Drive.C03
