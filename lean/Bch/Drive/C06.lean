import Bch.Drive.Common
import Bch.Drive.Ext
import Bch.Model.Wif
namespace Bch.Drive.C06
open Bch Bch.Drive Bch.Model Bch.Prim

def pubSer (d : Nat) (compress : Bool) : Bytes :=
  -- bchec: (0,0) stands for the point at infinity
  let pt := match Secp.mulG d with | .inf => Secp.Point.aff 0 0 | q => q
  if compress then Secp.serCompressed pt else Secp.serUncompressed pt

def netBits (w : Wif.WIF) : String := String.join (Address.nets.map fun n => tokB (w.netID = n.wifID))

def decTok (r : Except Wif.Err Wif.WIF) : String :=
  match r with
  | .ok w => s!"ok,{Bytes.tok (Bytes.ofNatBE 32 w.d)},{tokB w.compress},{w.netID.toNat},{netBits w},{Bytes.tok (Wif.String sha256d w)}"
  | .error .malformed => "err,malformed"
  | .error .checksum => "err,checksum"

def run : Runner
  -- wif <netid> <compress> <key>: String, DecodeWIF of it, public key serialisation
  | "wif", [_, nid, c, k], impl => do
    let nid ← nat? nid; let c ← bool? c; let k ← bytes? k
    let w : Wif.WIF := ⟨Bytes.toNatBE k, c, u8 nid⟩
    let s := Wif.String sha256d w
    let model := s!"{Bytes.tok s} {decTok (Wif.DecodeWIF sha256d s)} {Bytes.tok (pubSer w.d c)}"
    -- C06 round trip on the implementation's observation (key given as exactly 32 bytes)
    let prop := if k.length ≠ 32 then "-" else match impl.splitOn " " with
      | [s', d, pk] =>
        (match d.splitOn "," with
        | ["ok", key, cc, id, _, re] =>
          if key != Bytes.tok k then "violated:key" else if cc != tokB c then "violated:flag"
          else if id != toString nid then "violated:net" else if re != s' then "violated:reencode"
          else if (Bytes.ofTok pk).map (·.length) != some (if c then 33 else 65) then "violated:pubkey-length"
          else "ok"
        | _ => "violated:rejected own string")
      | _ => "violated:shape"
    pure { model, prop }
  | "wifdec", [_, s], impl => do
    let s ← bytes? s
    -- accepted => re-encodes to itself
    let prop := match impl.splitOn "," with
      | ["ok", _, _, _, _, re] => if re == Bytes.tok s then "ok" else "violated:canonical"
      | _ => "ok"
    pure { model := decTok (Wif.DecodeWIF sha256d s), prop }
  | _, _, _ => none

end Bch.Drive.C06
