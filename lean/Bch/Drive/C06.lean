import Bch.Drive.Common
import Bch.Drive.Ext
import Bch.Model.Wif
namespace Bch.Drive.C06
open Bch Bch.Drive Bch.Model Bch.Prim

def pubSer (d : Nat) (compress : Bool) : Bytes :=
  -- bchec: (0,0) stands for the point at infinity
  let pt := match Secp.mulG d with | .inf => Secp.Point.aff 0 0 | q => q
  if compress then Secp.serCompressed pt else Secp.serUncompressed pt

def netBits (w : Wif.WIF) : String := String.join (Address.nets.map fun n => tokB (w.netID = n.wifID))

def decTok (r : Except Wif.Err Wif.WIF) : String :=
  match r with
  | .ok w => s!"ok,{Bytes.tok (Bytes.ofNatBE 32 w.d)},{tokB w.compress},{w.netID.toNat},{netBits w},{Bytes.tok (Wif.String sha256d w)}"
  | .error .malformed => "err,malformed"
  | .error .checksum => "err,checksum"

def histStep (acc : Wif.WIF × List String) (st : String) : Option (Wif.WIF × List String) :=
  let (w, out) := acc
  match st.toList with
  | ['S'] => some (w, out ++ [Bytes.tok (Wif.String sha256d w)])
  | ['P'] => some (w, out ++ [Bytes.tok (pubSer w.d w.compress)])
  | ['D'] => some (w, out ++ [decTok (Wif.DecodeWIF sha256d (Wif.String sha256d w))])
  | ['C', b] => some ({ w with compress := b == '1' }, out)
  | 'K' :: r => (bytes? (String.ofList r)).map fun k => ({ w with d := Bytes.toNatBE k }, out)
  | _ => none

def run : Runner
  -- wif <netid> <compress> <key>: String, DecodeWIF of it, public key serialisation
  | "wif", [_, nid, c, k], impl => do
    let nid ← nat? nid; let c ← bool? c; let k ← bytes? k
    let w : Wif.WIF := ⟨Bytes.toNatBE k, c, u8 nid⟩
    let s := Wif.String sha256d w
    let model := s!"{Bytes.tok s} {decTok (Wif.DecodeWIF sha256d s)} {Bytes.tok (pubSer w.d c)}"
    -- C06 round trip on the implementation's observation (key given as exactly 32 bytes)
    let prop := if k.length ≠ 32 then "-" else match impl.splitOn " " with
      | [s', d, pk] =>
        (match d.splitOn "," with
        | ["ok", key, cc, id, _, re] =>
          if key != Bytes.tok k then "violated:key" else if cc != tokB c then "violated:flag"
          else if id != toString nid then "violated:net" else if re != s' then "violated:reencode"
          else if (Bytes.ofTok pk).map (·.length) != some (if c then 33 else 65) then "violated:pubkey-length"
          else "ok"
        | _ => "violated:rejected own string")
      | _ => "violated:shape"
    pure { model, prop }
  | "wifdec", [_, s], impl => do
    let s ← bytes? s
    -- accepted => re-encodes to itself
    let prop := match impl.splitOn "," with
      | ["ok", _, _, _, _, re] => if re == Bytes.tok s then "ok" else "violated:canonical"
      | _ => "ok"
    pure { model := decTok (Wif.DecodeWIF sha256d s), prop }
  -- wifhist <netid> <compress> <key> <steps>: every answer is a function of the current field values only
  | "wifhist", [_, nid, c, k, steps], _ => do
    let nid ← nat? nid; let c ← bool? c; let k ← bytes? k
    let w0 : Wif.WIF := ⟨Bytes.toNatBE k, c, u8 nid⟩
    let sts := if steps == "-" then [] else steps.splitOn ","
    let (_, out) ← sts.foldlM (fun (acc : Wif.WIF × List String) st => histStep acc st) (w0, [])
    pure { model := if out.isEmpty then "-" else " ".intercalate out, prop := "spec" }
  | "wifnil", _, impl => pure { model := "refused", prop := if impl == "refused" then "ok" else "violated:NewWIF accepted a nil network" }
  | _, _, _ => none

end Bch.Drive.C06
