import Bch.Prim.Bytes
/-
Driver-side helpers: the line protocol. One case per line:
  <ID> <op> <class> <arg>… => <implementation observation>
The driver answers `<EQ|DIFF>\t<prop verdict>\t<model observation>`.
-/
namespace Bch.Drive
open Bch

structure Out where
  /-- the model's observation, in the same textual form as the harness prints -/
  model : String
  /-- verdict of the property predicate evaluated on the *implementation's* observation:
      "ok", "violated:<clause>", or "-" when this op only checks fidelity of the model -/
  prop : String := "-"

abbrev Runner := (op : String) → (args : List String) → (impl : String) → Option Out

def nat? (s : String) : Option Nat := s.toNat?
def int? (s : String) : Option Int := s.toInt?
def bytes? (s : String) : Option Bytes := Bytes.ofTok s
def bool? (s : String) : Option Bool :=
  if s == "1" || s == "true" then some true else if s == "0" || s == "false" then some false else none

def tokB (b : Bool) : String := if b then "1" else "0"

/-- comma separated list; "-" is the empty list -/
def list? (f : String → Option α) (s : String) : Option (List α) :=
  if s == "-" then some [] else (s.splitOn ",").mapM f

def tokList (f : α → String) (xs : List α) : String :=
  if xs.isEmpty then "-" else ",".intercalate (xs.map f)

def u8 (n : Nat) : UInt8 := UInt8.ofNat n

end Bch.Drive
