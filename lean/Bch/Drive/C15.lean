import Bch.Drive.C04
import Bch.Model.HDHeap
namespace Bch.Drive.C15
open Bch Bch.Drive Bch.Model Bch.Prim Bch.Model.HDKey Bch.Model.HDHeap Bch.Drive.C04

def resTok : OpRes → String
  | .key i => s!"k{i}"
  | .err e => "e:" ++ errTok e
  | .unit => "."

def poolObs (h : Heap) : String :=
  let strs := (List.range h.keys.length).map fun i => Bytes.tok (stringH X h i)
  let ov := (overlaps h).map fun ((a, f), (b, g)) => s!"{a}.{f}~{b}.{g}"
  s!"{tokList id strs}|{tokList id ov}"

/-- one op: new heap, result token, zero-check token -/
def stepOp (h : Heap) (op : String) : Option (Heap × String × String) :=
  match op.splitOn ":" with
  | ["M", seed, net] => do
    let seed ← bytes? seed
    let net ← Address.nets[(← nat? net)]?
    let (h, r) := newMasterH X h seed net.hdPriv
    pure (h, resTok r, "")
  | ["P", i] => do
    let i ← nat? i
    if i ≥ h.keys.length then pure (h, ".", "") else
    let (h, r) := newKeyFromStringH X h (stringH X h i)
    pure (h, resTok r, "")
  | ["C", i, idx] => do
    let i ← nat? i; let idx ← nat? idx
    if i ≥ h.keys.length then pure (h, ".", "") else
    let (h, r) := childH X h i idx
    pure (h, resTok r, "")
  | ["N", i] => do
    let i ← nat? i
    if i ≥ h.keys.length then pure (h, ".", "") else
    let (h, r) := neuterH X h i
    pure (h, resTok r, "")
  | ["S", i, net] => do
    let i ← nat? i
    let net ← Address.nets[(← nat? net)]?
    pure (setNetH h i net.hdPriv net.hdPub, ".", "")
  | ["A", i] => do
    let i ← nat? i
    if i ≥ h.keys.length then pure (h, ".", "") else
    let (h, pk) := pubKeyBytesH X h i
    pure (h, "a:" ++ Bytes.tok (CashAddr.checkEncodeCashAddress ((X.hash160 pk).take 20) Address.mainNet.cashPrefix 0), "")
  | ["E", i] => do
    let i ← nat? i
    if i ≥ h.keys.length then pure (h, ".", "") else
    let (h, pk) := pubKeyBytesH X h i
    pure (h, (match X.parse pk with | some p => "p:" ++ Bytes.tok (X.serC p) | none => "e:other"), "")
  | ["V", i] => do
    let i ← nat? i
    match h.keys[i]? with
    | none => pure (h, ".", "")
    | some k => pure (h, (if k.isPrivate then "v:" ++ Bytes.tok (Bytes.ofNatBE 32 (Bytes.toNatBE (h.read k.key))) else "e:notPriv"), "")
  | ["Z", i] => do
    let i ← nat? i
    match h.keys[i]? with
    | none => pure (h, ".", "")
    | some k =>
      let h' := zeroH h i
      let ok := [k.key, k.pubKey, k.chainCode, k.parentFP].all fun r => (h'.read r).all (· == 0)
      pure (h', ".", "|z" ++ tokB ok)
  | _ => none

def run : Runner
  | "hist", [_, ops], impl => do
    let ops := if ops == "-" then [] else ops.splitOn ";"
    let (_, toks) ← ops.foldlM (fun (acc : Heap × List String) op => do
      let (h, r, z) ← stepOp acc.1 op
      pure (h, acc.2 ++ [s!"{r}|{poolObs h}{z}"])) (({} : Heap), [])
    -- C15 on the implementation's observation: no two writable ranges of the pool ever overlap, zeroing erases
    let implSteps := if impl == "-" then [] else impl.splitOn " "
    -- hook-less observation ("|?"): the overlap relation and the erased-memory probe are not available; compare the rest
    let hookless := implSteps.any fun t => t.endsWith "|?"
    let strip (t : String) : String := match t.splitOn "|" with
      | r :: strs :: _ => s!"{r}|{strs}|?"
      | _ => t
    let toks := if hookless then toks.map strip else toks
    let bad := implSteps.filter fun s =>
      match s.splitOn "|" with
      | [_, _, ov] => ov != "-" && ov != "?"
      | [_, _, ov, z] => ov != "-" || z != "z1"
      | _ => true
    -- an operation that must fail (zeroed key, hardened child of a public key, ...) but produced a key or key material
    let headOf (t : String) : String := (t.splitOn "|").headD ""
    let leaked := (implSteps.zip toks).any fun (i, m) =>
      (headOf m).startsWith "e:" && !(headOf i).startsWith "e:" && headOf i != "."
    pure { model := (if toks.isEmpty then "-" else " ".intercalate toks),
           prop := if !bad.isEmpty then "violated:buffers shared between keys or not erased"
                   else if leaked then "violated:an operation that must fail (zeroed key / illegal derivation) returned key material"
                   else "ok" }
  | _, _, _ => none

end Bch.Drive.C15
