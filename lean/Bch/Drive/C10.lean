import Bch.Drive.C09
import Bch.Model.MerkleSelect
import Bch.Spec.Script
namespace Bch.Drive.C10
open Bch Bch.Drive Bch.Model Bch.Model.BloomTx

def pushes? (s : String) : Option (Option (List Bytes)) :=
  if s == "E" then some none
  else if s == "_" then some (some [])
  else ((s.splitOn ".").mapM bytes?).map some

def parseOut (o : String) : Option TxOut :=
  match o.splitOn "~" with
  | [c, p] => (pushes? p).map fun ps => { pushes := ps, isPubKeyOrMultisig := c == "1" }
  | _ => none

def parseIn (i : String) : Option TxIn :=
  match i.splitOn "~" with
  | [op, p] =>
    match op.splitOn ":" with
    | [h, ix] => do
      let h ← bytes? h
      let ix ← nat? ix
      let ps ← pushes? p
      pure { prevHash := h, prevIdx := ix, pushes := ps }
    | _ => none
  | _ => none

def parseExtTx (s : String) : Option Tx :=
  match s.splitOn "!" with
  | [txid, outs, ins] => do
    let txid ← bytes? txid
    let outs ← if outs == "-" then some [] else (outs.splitOn ",").mapM parseOut
    let ins ← if ins == "-" then some [] else (ins.splitOn ",").mapM parseIn
    pure { id := txid, outs := outs, ins := ins }
  | _ => none

/-- split "EXT <ext> RES <res>" -/
def splitExt (impl : String) : Option (String × String) :=
  match impl.splitOn " RES " with
  | [e, r] => if e.startsWith "EXT " then some ((e.drop 4).toString, r) else none
  | _ => none

def rawInScript (i : String) : Option Bytes :=
  match i.splitOn ":" with
  | [_, _, sc] => bytes? sc
  | _ => none

/-- the outpoint an input of a case line spends -/
def rawInOutPoint (i : String) : Option (Bytes × Nat) :=
  match i.splitOn ":" with
  | [h, ix, _] => do pure (← bytes? h, ← nat? ix)
  | _ => none

/-- raw scripts of one transaction of a case line (`outs '!' ins`, see `fmtTx` in harness/c09.go) -/
def rawScripts (s : String) : Option (List Bytes × List Bytes) :=
  match s.splitOn "!" with
  | [outs, ins] => do
    let outs ← if outs == "_" then some [] else (outs.splitOn ",").mapM bytes?
    let ins ← if ins == "_" then some [] else (ins.splitOn ",").mapM rawInScript
    pure (outs, ins)
  | _ => none

/-- the answers of the external library `txscript` that arrive with the case (`EXT`: pushed data of every script, and
    whether an output script is pay-to-pubkey / multisig) against the independent specification `Spec/Script.lean`
    evaluated on the RAW scripts of the case line. "" when all agree, otherwise a description of the first mismatch. -/
def extVsSpec (rawTxs : String) (txs : List Tx) : String :=
  if rawTxs == "-" then "" else
  let raws := (rawTxs.splitOn "|").map rawScripts
  if raws.length != txs.length then "ext-vs-spec: transaction count" else
  let bad := (raws.zip txs).zipIdx.filterMap fun ((raw, tx), j) =>
    match raw with
    | none => some s!"ext-vs-spec: case line of tx {j} not parsable"
    | some (outs, ins) =>
      if outs.length != tx.outs.length || ins.length != tx.ins.length then some s!"ext-vs-spec: script count of tx {j}"
      else if (outs.zip tx.outs).any fun (sc, o) => !Spec.Script.agrees sc o.pushes o.isPubKeyOrMultisig then
        some s!"ext-vs-spec: txscript and Spec/Script.lean disagree on an output script of tx {j}"
      else if (ins.zip tx.ins).any fun (sc, i) => Spec.Script.pushedData sc != i.pushes then
        some s!"ext-vs-spec: txscript and Spec/Script.lean disagree on an input script of tx {j}"
      else none
  -- the outpoints the EXT section reports are the ones of the case line
  let rawOps := (rawTxs.splitOn "|").map fun t =>
    match t.splitOn "!" with
    | [_, ins] => if ins == "_" then some [] else (ins.splitOn ",").mapM rawInOutPoint
    | _ => none
  let bad := if bad.isEmpty && (rawOps.zip txs).any (fun (ro, tx) =>
      match ro with
      | some ops => ops != tx.ins.map (fun i => (i.prevHash, i.prevIdx))
      | none => true) then ["ext-vs-spec: the spent outpoints reported with the case differ from the case line"] else bad
  bad.headD ""

def comb (l r : Bytes) : Bytes := Prim.sha256d (l ++ r)
def zero32 : Bytes := List.replicate 32 0

def hashesTok (hs : List Bytes) : String := tokList Bytes.tok hs
def natsTok (ns : List Nat) : String := tokList toString ns

def mmsgTok (m : Merkle.Msg Bytes) : String :=
  s!"{m.numTx}/{hashesTok m.hashes}/{Bytes.tok m.flags}"

def extractTok (m : Merkle.Msg Bytes) : String :=
  let e := Merkle.extractMsg comb zero32 m
  let r := match e.root with | some h => Bytes.tok h | none => "nil"
  -- "/same": a repeated call on the same object answers like the first (extraction is a function of the message)
  s!"{r}/{hashesTok e.matches_}/{natsTok e.items}/{tokB e.bad}/same"

def sortNats (l : List Nat) : List Nat := l.mergeSort

def run : Runner
  | "txm", [_, b, n, t, f, rawTxs], impl => do
    let m ← C09.parseMsg b n t f
    let (ext, _) ← splitExt impl
    let txs ← (ext.splitOn "|").mapM parseExtTx
    let mism := extVsSpec rawTxs txs
    if mism != "" then return { model := mism }
    let (fin, res) := txs.foldl (fun (st : Bloom.Filter × List String) tx =>
        let (f', r) := matchTxAndUpdate bloomOps st.1 tx
        (f', tokB r :: st.2)) (some m, [])
    pure { model := s!"EXT {ext} RES {",".intercalate res.reverse} {C09.bitsTok fin}" }
  | "blk", [_, b, n, t, f, rawTxs], impl => do
    let fm : Bloom.Filter ← if b == "nil" then some none else (C09.parseMsg b n t f).map some
    let (ext, implRes) ← splitExt impl
    let txs ← if ext == "-" then some [] else (ext.splitOn "|").mapM parseExtTx
    let mism := extVsSpec rawTxs txs
    if mism != "" then return { model := mism }
    let block := txs.toArray
    let s := GetMatchedIndices bloomOps bloomSame 3000000 block fm
    -- the reference (unrepaired, exponential) scan, when it is affordable: the repaired scan must agree with it
    -- (the reference scan is exponential in the chain length: only run it on blocks of at most 12 transactions)
    let sref := if txs.length ≤ 12 then GetMatchedIndicesRef bloomOps 200000 block fm
                else { filter := fm, matched := [], outOfFuel := true }
    let idx := sortNats s.matched
    let idxTok := natsTok idx
    let bits := C09.bitsTok s.filter
    let res :=
      if s.outOfFuel then "FUEL"
      else if txs.isEmpty then s!"{idxTok} {bits}"
      else
        let leaves := txs.map (·.id)
        let (msg, ixs) := Merkle.buildMsg comb leaves (fun i => idx.contains i) zero32
        -- the two Go builders are two transcriptions (Model/Merkle.lean and the statement-by-statement
        -- Model/MerkleSelect.lean `buildMsgBloom`, proved equal in C11_builders_agree): each is compared with its own
        let (msgB, ixsB) := MerkleSelect.buildMsgBloom comb leaves (fun i => idx.contains i) zero32
        let one := s!"{natsTok ixsB} {mmsgTok msgB} {bits}"
        let two := s!"{natsTok ixs} {mmsgTok msg} {bits}"
        s!"{idxTok} {bits} {one} {two} {extractTok msg}"
    let refAgree := sref.outOfFuel || (sortNats sref.matched == idx && C09.bitsTok sref.filter == bits)
    let quad := s.steps ≤ (txs.length + 1) * ((txs.foldl (fun a t => a + t.outs.length) 0) + 2)
    pure { model := s!"EXT {ext} RES {res}",
           -- the model's matched set is the specified one (C10_scan_sound/complete): a different reported set is a
           -- concrete violation, not just a broken correspondence
           prop := if !refAgree then "violated:model-bug repaired scan differs from reference scan"
                   else if !s.outOfFuel && (implRes.splitOn " ").head? != some idxTok then
                     "violated:reported transaction set differs from the specified set"
                   else if !quad then "violated:scan steps above (n+1)*(outputs+2)" else "-" }
  | _, _, _ => none

end Bch.Drive.C10
