import Bch.Drive.Common
import Bch.Drive.C10
import Bch.Model.GcsBuilder
import Bch.Prim.SipHash
import Bch.Prim.Sha2
namespace Bch.Drive.C13
open Bch Bch.Drive Bch.Model

def expandItems (s : String) : Option (List Bytes) :=
  if s == "-" then some [] else
  (s.splitOn ",").foldlM (fun acc t =>
    if t.startsWith "seq:" then
      match t.splitOn ":" with
      | [_, c, salt] => do
        let c ← nat? c; let salt ← nat? salt
        pure (acc ++ (List.range c).map fun i => Bytes.ofNatLE 8 (salt + i))
      | _ => none
    else if t == "e" then some (acc ++ [[]])
    else (bytes? t).map fun b => acc ++ [b]) []

def sip (key : Bytes) (d : Bytes) : UInt64 := Prim.siphash24Key key d

def filterObs (f : Gcs.Filter) : String :=
  s!"{f.n} {f.p} {Bytes.tok f.data}"

/-- same results as `Gcs.Match/ZipMatchAny/HashMatchAny/MatchAny` (unfold the definitions), but the filter is
    unpacked and, for the hash strategy, decoded once per filter instead of once per call -/
def queryObs (key : Bytes) (f : Gcs.Filter) (queries : String) : Option String :=
  if queries == "_" then some "" else
  let bits := Gcs.unpackBits f.data
  let all := Gcs.decodeAll f.p (bits.length + 1) bits 0
  let h := Gcs.hashToRange (sip key) f.modulusNP
  (queries.splitOn ";").foldlM (fun acc q => do
    let items ← expandItems q
    let per := items.map fun d => Gcs.matchLoop f.p (h d) f.n bits 0
    let cnt := s!"{(per.filter id).length}.{String.ofList (per.map fun b => if b then '1' else '0')}"
    let zip := if items.isEmpty then false else Gcs.zipLoop f.p f.n bits 0 (Gcs.sortU64 (items.map h))
    let hash := if items.isEmpty then false else items.any fun d => all.contains (h d)
    let any := if items.length ≥ f.n / 2 then hash else zip
    pure (acc ++ s!" {cnt}/{tokB zip}/{tokB hash}/{tokB any}")) ""

/-- C13 on the implementation's query observations: every strategy agrees with "some item matches individually" -/
def agreeProp (obs : List String) : String :=
  let bad := obs.filter fun o =>
    match o.splitOn "/" with
    | [cnt, z, h, a] =>
      let want := if (cnt.splitOn ".").headD "" == "0" then "0" else "1"
      !(z == want && h == want && a == want)
    | _ => false
  if bad.isEmpty then "ok" else "violated:query strategies disagree"

def buildErrTok : Gcs.BuildErr → String
  | .nTooBig => "err:ntoobig" | .pTooBig => "err:ptoobig"

/-- one token of a builder chain; `none` in the first component = "start from a fresh builder" (With* constructors) -/
def parseBldOp (o : String) : Option (Bool × List GcsBuilder.Op) :=
  match o.splitOn ":" with
  | ["k", k] => (bytes? k).map fun k => (false, [GcsBuilder.Op.setKey k])
  | ["p", p] => (nat? p).map fun p => (false, [GcsBuilder.Op.setP p])
  | ["m", m] => (nat? m).map fun m => (false, [GcsBuilder.Op.setM m])
  | ["a", d] => (bytes? d).map fun d => (false, [GcsBuilder.Op.addEntry d])
  | ["h", h] => (bytes? h).map fun h => (false, [GcsBuilder.Op.setKey (h.take 16)])
  | ["A", ds] => (list? bytes? ds).map fun ds => (false, ds.map GcsBuilder.Op.addEntry)
  | ["P", _] => some (false, [])   -- Preallocate: a capacity hint, no effect on the set
  | ["H", h] => (bytes? h).map fun h => (false, [GcsBuilder.Op.addEntry ((h ++ List.replicate 32 0).take 32)])
  -- With* constructors: SetKey . SetP . SetM (. Preallocate) on a fresh builder; defaults P = 19, M = 784931
  | ["w", ct, k, p, _n, m] => do
    let k ← bytes? k; let p ← nat? p; let m ← nat? m
    let key := k.take 16   -- DeriveKey: the first 16 bytes of the hash
    let (p, m) := if ct == "k" || ct == "h" then (19, 784931) else (p, m)
    pure (true, [GcsBuilder.Op.setKey key, .setP p, .setM m])
  | _ => none

def parseInRef (i : String) : Option (Bytes × Nat) :=
  match i.splitOn ":" with
  | [h, ix, _] => do
    let h ← bytes? h
    let ix ← nat? ix
    pure (h, ix)
  | _ => none

def parseBTx (s : String) : Option GcsBuilder.Tx :=
  match s.splitOn "!" with
  | [outs, ins] => do
    let outs ← if outs == "_" then some [] else (outs.splitOn ",").mapM bytes?
    let ins ← if ins == "_" then some [] else (ins.splitOn ",").mapM parseInRef
    pure ⟨ins, outs⟩
  | _ => none

def bErrTok : GcsBuilder.Err → String
  | .pTooBig => "err:ptoobig" | .pUnset => "err:other" | .mUnset => "err:other"
  | .gcs e => buildErrTok e

def run : Runner
  | "fr", [_, v, hi, lo], _ => do
    let v ← nat? v; let hi ← nat? hi; let lo ← nat? lo
    let r := Gcs.fastReduction (UInt64.ofNat v) (UInt64.ofNat hi) (UInt64.ofNat lo)
    -- floor(v * (hi*2^32+lo) / 2^64): the BIP158 mapping
    let spec := (v * (hi * 2^32 + lo)) / 2^64 % 2^64
    pure { model := toString r.toNat, prop := if hi < 2^32 ∧ lo < 2^32 then (if toString spec == toString r.toNat then "spec" else "violated:model-bug") else "-" }
  | "sip", [_, k, d], _ => do
    let k ← bytes? k; let d ← bytes? d
    pure { model := toString (sip k d).toNat, prop := "spec" }
  | "gcs", [_, key, P, M, data, queries], impl => do
    let key ← bytes? key; let P ← nat? P; let M ← nat? M
    let data ← expandItems data
    match Gcs.BuildGCSFilter (sip key) P (UInt64.ofNat M) data with
    | .error e => pure { model := buildErrTok e }
    | .ok f =>
      let q ← queryObs key f queries
      let head := s!"{filterObs f} {Bytes.tok (Gcs.NBytes f)} {Bytes.tok (Gcs.PBytes f)} {Bytes.tok (Gcs.NPBytes f)}{q}"
      let r2 ← match Gcs.FromNBytes P (UInt64.ofNat M) (Gcs.NBytes f) with
        | .ok f2 => (queryObs key f2 queries).map fun q2 => s!" R {filterObs f2}{q2}"
        | .error _ => some " R err"
      let r3 ← match Gcs.FromBytes f.n P (UInt64.ofNat M) f.data with
        | .ok f3 => (queryObs key f3 queries).map fun q3 => s!" R {filterObs f3}{q3}"
        | .error _ => some " R err"
      -- property predicates on the implementation's observation
      let toks := impl.splitOn " "
      let qtoks := toks.filter fun t => (t.splitOn "/").length == 4
      let p1 := agreeProp qtoks
      pure { model := head ++ r2 ++ r3, prop := p1 }
  | "gcsraw", [_, key, P, M, N, bytes, queries], impl => do
    let key ← bytes? key; let P ← nat? P; let M ← nat? M
    let bytes ← bytes? bytes
    let r : Except String Gcs.Filter := if N == "-" then
        (match Gcs.FromNBytes P (UInt64.ofNat M) bytes with
         | .ok f => .ok f
         | .error .varint => .error "err:other" | .error .nTooBig => .error "err:ntoobig" | .error .pTooBig => .error "err:ptoobig")
      else match N.toNat? with
        | none => .error "bad"
        | some n => (match Gcs.FromBytes n P (UInt64.ofNat M) bytes with | .ok f => .ok f | .error _ => .error "err:ptoobig")
    match r with
    | .error e => if e == "bad" then none else pure { model := e }
    | .ok f =>
      let q ← queryObs key f queries
      let _ := impl
      pure { model := filterObs f ++ q }
  | "bld", [_, ops], _ => do
    let ops ← if ops == "-" then some [] else (ops.splitOn ";").mapM parseBldOp
    let b := ops.foldl (fun b (fresh, l) => l.foldl GcsBuilder.step (if fresh then {} else b)) ({} : GcsBuilder.Builder)
    let ks := match b.err with | some e => bErrTok e | none => Bytes.tok b.key
    pure { model := match GcsBuilder.Build sip b with
      | .ok f => s!"{ks} {filterObs f}"
      | .error e => s!"{ks} {bErrTok e}" }
  -- a random key is a key: same bytes as the builder given that key, two random keys differ, every item is a member
  | "bldrand", [_, variant, p, _n, m, items], impl => do
    let p ← nat? p; let m ← nat? m
    let (p, m) := if variant == "default" then (19, 784931) else (p, m)
    let items ← expandItems items
    let distinct := items.eraseDups.length
    -- the key is random: it is taken from the observation, the filter bytes for THAT key are the model's
    let key := match impl.splitOn " " with
      | [_, _, _, k, _] => (bytes? k).getD []
      | _ => []
    let b := (items.foldl (fun b d => GcsBuilder.step b (.addEntry d))
                ([GcsBuilder.Op.setKey key, .setP p, .setM m].foldl GcsBuilder.step {}))
    let model := match GcsBuilder.Build sip b with
      | .ok f => s!"1 1 {items.length}/{items.length} {Bytes.tok key} {Bytes.tok (Gcs.NBytes f)}"
      | .error _ => "err"
    pure { model, prop := if distinct == 0 then "-" else "spec" }
  | "basic", [_, txs, prev], impl => do
    let (ext, _) ← C10.splitExt impl
    let bh ← bytes? ext
    let prev ← bytes? prev
    let block ← if txs == "-" then some [] else (txs.splitOn "|").mapM parseBTx
    let r1 := match GcsBuilder.buildBasicFilterWithKey sip block bh with
      | .ok f => s!"{filterObs f} {Bytes.tok (GcsBuilder.GetFilterHash Prim.sha256d f)} {Bytes.tok (GcsBuilder.MakeHeaderForFilter Prim.sha256d f prev)}"
      | .error e => bErrTok e
    let r2 := match GcsBuilder.BuildMempoolFilter sip block with
      | .ok f => filterObs f
      | .error e => bErrTok e
    pure { model := s!"EXT {ext} RES {Bytes.tok (bh.take 16)} {r1} {r2}" }
  | _, _, _ => none

end Bch.Drive.C13
