//go:build !verif_nohook_hdkeychain

package main

// Hooks of package hdkeychain (compiled from /repo with -tags verif).
import "github.com/gcash/bchutil/hdkeychain"

var (
	hk_hdkeychain_Fields      = hdkeychain.VerifFields
	hk_hdkeychain_FieldRanges = hdkeychain.VerifFieldRanges
)
