package main

import "bufio"

func emitFacts(out *bufio.Writer) {
	out.WriteString("namespace Bch.Generated\nend Bch.Generated\n")
}
