package main

import (
	"bytes"
	"encoding/json"
	"fmt"
	"os"
	"runtime"
	"strings"
	"time"

	"github.com/gcash/bchd/wire"
	"github.com/gcash/bchutil"
	"github.com/gcash/bchutil/bloom"
	"github.com/gcash/bchutil/jsonpb"
	pb "github.com/gcash/bchutil/jsonpb/testpb"
)

func init() { props["C08"] = &Prop{Gen: genC08, Exec: execC08} }

// ownerOf maps an op to the property whose Exec implements it (C08 sweeps the other properties' parsers)
var c08Owner = map[string]string{
	"dec": "C01", "cdec": "C01", "ccdec": "C01", "cb": "C01", "addr": "C01",
	"wifdec": "C06", "xkey": "C05",
	"b58dec": "C07", "chkdec": "C07", "bechdec": "C07", "bcb": "C07",
	"hist": "C09", "histobj": "C09", "txm": "C09", "blk": "C09", "ex": "C09", "exlim": "C09",
	"gcsraw": "C13",
}

func execC08Inner(c Case) string {
	switch c.Op {
	case "json":
		var msg pb.GetBlockResponse
		err := jsonpb.Unmarshal(bytes.NewReader(unhx(c.Args[0])), &msg)
		// the streaming entry point must treat the same document the same way
		var msg2 pb.GetBlockResponse
		// (like for like: the package-level Unmarshal allows unknown fields, the package-level UnmarshalNext does not)
		err2 := (&jsonpb.Unmarshaler{AllowUnknownFields: true}).UnmarshalNext(json.NewDecoder(bytes.NewReader(unhx(c.Args[0]))), &msg2)
		var msg3 pb.GetBlockResponse
		jsonpb.UnmarshalNext(json.NewDecoder(bytes.NewReader(unhx(c.Args[0]))), &msg3) // the strict entry point: must not panic either
		if (err == nil) != (err2 == nil) {
			return "unmarshal/unmarshalnext disagree"
		}
		if err != nil {
			return "err"
		}
		return "ok"
	case "blkbytes":
		b, err := bchutil.NewBlockFromBytes(unhx(c.Args[0]))
		if err != nil {
			return "err"
		}
		n := len(b.Transactions())
		_, lerr := b.TxLoc()
		by, _ := b.Bytes()
		return "ok:" + itoa(n) + ":" + itoa(len(by)) + ":" + b2s(lerr == nil)
	case "txbytes":
		t, err := bchutil.NewTxFromBytes(unhx(c.Args[0]))
		if err != nil {
			return "err"
		}
		return "ok:" + hx(t.Hash()[:4])
	case "scantime": // scantime <k1> <k2>: cost of scanning a reversed 2-input chain must not explode with its length
		t := func(k int) time.Duration {
			txs := []*wire.MsgTx{}
			for j := 0; j < k; j++ {
				tx := wire.NewMsgTx(1)
				tx.AddTxOut(wire.NewTxOut(0, []byte{0x51}, wire.TokenData{}))
				tx.AddTxOut(wire.NewTxOut(1, []byte{0x52}, wire.TokenData{}))
				if j == 0 {
					tx.AddTxIn(wire.NewTxIn(&wire.OutPoint{Index: 9}, nil))
				} else {
					ph := txs[j-1].TxHash()
					tx.AddTxIn(wire.NewTxIn(&wire.OutPoint{Hash: ph, Index: 0}, nil))
					tx.AddTxIn(wire.NewTxIn(&wire.OutPoint{Hash: ph, Index: 1}, nil))
				}
				txs = append(txs, tx)
			}
			blk := wire.NewMsgBlock(&wire.BlockHeader{})
			for j := k - 1; j >= 0; j-- {
				blk.AddTransaction(txs[j])
			}
			f := bloom.LoadFilter(wire.NewMsgFilterLoad(bytesFF(64), 3, 0, wire.BloomUpdateAll))
			st := time.Now()
			bloom.GetMatchedIndices(bchutil.NewBlock(blk), f)
			return time.Since(st)
		}
		t1, t2 := t(atoi(c.Args[0])), t(atoi(c.Args[1]))
		if t2 > 250*time.Millisecond && t2 > 100*t1 {
			return "SUPERPOLY " + t1.String() + " " + t2.String()
		}
		return "ok"
	case "bcb": // bech32.ConvertBits (owner C07 calls it "cb")
		return props["C07"].Exec(Case{Op: "cb", Cls: c.Cls, Args: c.Args})
	}
	if o, ok := c08Owner[c.Op]; ok {
		return props[o].Exec(c)
	}
	panic("harness: op " + c.Op)
}

// execC08 adds the resource guards: wall-clock limit and allocation proportional to the input
func execC08(c Case) string {
	inLen := 0
	for _, a := range c.Args {
		inLen += len(a)
	}
	var m0, m1 runtime.MemStats
	runtime.ReadMemStats(&m0)
	type res struct {
		obs string
		pan interface{}
	}
	ch := make(chan res, 1)
	go func() {
		defer func() {
			if e := recover(); e != nil {
				ch <- res{pan: e}
			}
		}()
		ch <- res{obs: execC08Inner(c)}
	}()
	limit := 20 * time.Second
	select {
	case r := <-ch:
		if r.pan != nil {
			panic(r.pan) // classified by safeExec
		}
		runtime.ReadMemStats(&m1)
		alloc := m1.TotalAlloc - m0.TotalAlloc
		// generous linear budget: 64 MiB + 4 KiB per input character (hex) — far above anything proportional
		if alloc > 64<<20+uint64(inLen)*4096 {
			return "ALLOC:" + u64s(alloc>>20) + "MiB " + r.obs
		}
		return r.obs
	case <-time.After(limit):
		fmt.Println(line("C08", c, "TIMEOUT"))
		os.Stdout.Sync()
		os.Exit(3)
	}
	return ""
}

func genC08(r *Rng, tier string, emit func(Case)) {
	e := func(op, cls string, args ...string) { emit(Case{op, cls, args}) }
	// ---- witnesses of the repaired defects (regressions)
	e("cdec", "short-valid-checksum", hs("aaby:tsyerga"))
	e("hist", "empty-filter", "-", "1", "0", "0", "m:00;a:00;m:00;p:"+strings.Repeat("00", 32)+":0")
	e("json", "hetero-array", hs(`{"a":["00",1]}`))
	e("json", "hetero-array2", hs(`{"block":{"info":{"hash":["00",{"x":null},[1]]}}}`))
	// strings of exactly / around the length of a hex hash (64 characters), hexadecimal or not, as a map value, as the
	// first, a later and the only element of an array of strings, at two nesting depths
	for _, l := range []int{62, 63, 64, 65, 66, 128} {
		for _, alpha := range []string{"0123456789abcdef", "g", "0123456789abcdefg", "Z -"} {
			b := make([]byte, l)
			for i := range b {
				b[i] = alpha[(i*7+l)%len(alpha)]
			}
			v := `"` + string(b) + `"`
			for _, shape := range []string{`{"a":%s}`, `{"a":[%s]}`, `{"a":["00",%s]}`, `{"a":[%s,"00"]}`, `{"block":{"hash":["00","11",%s]}}`, `[%s]`, `["00",%s]`} {
				e("json", "hashlen", hs(strings.Replace(shape, "%s", v, 1)))
			}
		}
	}
	e("scantime", "chain", "12", "22")
	e("gcsraw", "hugeN", strings.Repeat("00", 16), "19", "784931", "-", "feffffffff00", "00;seq:3:1")
	// ---- the address constructors take externally supplied hashes, scripts and serialized keys (a key pushed by a
	// script): every kind with degenerate payload lengths, on two nets
	for _, kind := range []string{"pkh", "sh", "sh32", "slppkh", "slpsh", "slpsh32", "lpkh", "lsh", "pk", "shs", "sh32s", "lshs"} {
		for _, l := range []int{0, 1, 19, 20, 21, 31, 32, 33, 34, 64, 65, 66} {
			e("addr", "ctorlens", kind, itoa(l%2), hx(r.Bytes(l)))
		}
		e("addr", "ctorlens", kind, "0", "-")
	}
	// ---- sweep of the other properties' near-valid / malformed streams
	sub := func(id string, keep map[string]bool, rename map[string]string) {
		props[id].Gen(NewRng(r.U64(), id), "quick", func(c Case) {
			if !keep[c.Op] {
				return
			}
			if n, ok := rename[c.Op]; ok {
				c.Op = n
			}
			emit(c)
		})
	}
	reps := 1
	if tier == "thorough" {
		reps = 6
	}
	for i := 0; i < reps; i++ {
		sub("C02", map[string]bool{"dec": true, "ccdec": true}, nil)
		sub("C05", map[string]bool{"xkey": true}, nil)
		sub("C06", map[string]bool{"wifdec": true}, nil)
		sub("C07", map[string]bool{"b58dec": true, "chkdec": true, "bechdec": true, "cb": true}, map[string]string{"cb": "bcb"})
		sub("C12", map[string]bool{"ex": true}, nil)
		sub("C14", map[string]bool{"gcsraw": true}, nil)
		sub("C10", map[string]bool{"blk": true, "txm": true}, nil)
	}
	n := 300
	if tier == "thorough" {
		n = 5000
	}
	for i := 0; i < n; i++ {
		// CashAddr strings with a valid checksum over 0..12 payload symbols (too short for the 8 checksum symbols)
		pre := []string{"a", "bitcoincash", "q", "bchtest", "zz"}[r.Intn(5)]
		k := r.Intn(13)
		p5 := r.Bytes(k)
		for j := range p5 {
			p5[j] &= 31
		}
		full := symsToString(specEncode5(pre, p5)) // k + 8 symbols with valid checksum
		e("cdec", "valid"+itoa(k), hs(pre+":"+full))
		e("ccdec", "valid"+itoa(k), hs(pre+":"+full))
		e("dec", "valid"+itoa(k), itoa(r.Intn(len(nets))), hs(pre+":"+full))
		if i%3 == 0 { // the same degenerate payloads under a real network prefix, qualified and unqualified
			np := nets[r.Intn(len(nets))]
			f2 := symsToString(specEncode5(np.CashAddressPrefix, p5))
			e("dec", "netvalid"+itoa(k), itoa(r.Intn(len(nets))), hs(np.CashAddressPrefix+":"+f2))
			e("dec", "netvalid"+itoa(k), itoa(r.Intn(len(nets))), hs(f2))
		}
		// solve for strings whose TOTAL symbol count is below 8 with a valid checksum: brute force 3 free symbols
		if i%20 == 0 {
			for tries := 0; tries < 200000; tries++ {
				ln := 1 + r.Intn(7)
				v := r.Bytes(ln)
				for j := range v {
					v[j] &= 31
				}
				if specPolyMod(append(specPrefix(pre), v...)) == 0 {
					e("cdec", "short-valid-checksum", hs(pre+":"+symsToString(v)))
					break
				}
			}
		}
		// bloom filter-load grid incl. the empty bit array
		fl := r.Pick(0, 0, 1, 2, 36000)
		nh := r.Pick(0, 1, 50)
		e("hist", "grid", hx(make([]byte, fl)), itoa(nh), u64s(uint64(uint32(r.U64()))), itoa(r.Intn(3)),
			"m:"+hx(r.Bytes(r.Intn(5)))+";a:"+hx(r.Bytes(3))+";o:"+hx(r.Bytes(32))+":1;l")
		// merkle messages with extreme counts
		cnt := uint64(r.Pick(0, 1, 2098360, 2098361, 4294967295, 7))
		e("ex", "counts", u64s(cnt), joinOr([]string{"aa", "bb", "cc"}[:r.Intn(4)], ","), hx(r.Bytes(r.Intn(4))))
		// GCS N-prefixed filters of 1..9 bytes declaring huge N, all P
		raw := r.Bytes(1 + r.Intn(9))
		if r.Bool() {
			raw[0] = byte(r.Pick(0xfd, 0xfe, 0xff, 0xfc))
		}
		e("gcsraw", "tiny", hx(r.Bytes(16)), itoa(r.Intn(34)), u64s(pickM(r, 8)), "-", hx(raw), "00;seq:2:5;-")
		// JSON: heterogeneous arrays at every nesting position, nulls in maps, deep nesting
		e("json", "gen", hs(genJSON(r, 0)))
		// serialized blocks / transactions: honest prefix, truncations, random bytes
		blk := synthBlock(r.Intn(4), uint32(r.U64()), r.Bool())
		var buf bytes.Buffer
		blk.Serialize(&buf)
		by := buf.Bytes()
		switch r.Intn(4) {
		case 0:
			by = by[:r.Intn(len(by)+1)]
		case 1:
			by[r.Intn(len(by))] ^= byte(1 << uint(r.Intn(8)))
		case 2:
			by = append(by, r.Bytes(r.Intn(4))...)
		}
		e("blkbytes", "mut", hx(by))
		e("txbytes", "rand", hx(r.Bytes(r.Intn(120))))
		if len(blk.Transactions) > 0 {
			var tb bytes.Buffer
			blk.Transactions[0].Serialize(&tb)
			t := tb.Bytes()
			if r.Bool() {
				t = t[:r.Intn(len(t)+1)]
			}
			e("txbytes", "mut", hx(t))
		}
	}
	// block declaring a huge transaction count / script length in very few bytes
	hdr := make([]byte, 80)
	e("blkbytes", "hugecount", hx(append(append([]byte{}, hdr...), 0xff, 0xff, 0xff, 0xff, 0xff, 0xff, 0xff, 0xff, 0x7f)))
	e("blkbytes", "hugecount2", hx(append(append([]byte{}, hdr...), 0xfe, 0xff, 0xff, 0xff, 0x7f)))
}

func genJSON(r *Rng, depth int) string {
	if depth > 5 {
		return `"00"`
	}
	switch r.Intn(9) {
	case 0:
		return `"` + hxs(r.Bytes(r.Pick(0, 1, 32, 3))) + `"`
	case 1:
		return itoa(r.Intn(100))
	case 2:
		return "null"
	case 3:
		if r.Intn(3) == 0 {
			// strings of exactly / around the length of a hex hash (64), made of hex digits or not
			l := r.Pick(64, 64, 63, 65, 62, 66, 128)
			b := make([]byte, l)
			alpha := "0123456789abcdef"
			if r.Intn(2) == 0 {
				alpha = "0123456789abcdefgxyzGXYZ -"
			}
			for i := range b {
				b[i] = alpha[r.Intn(len(alpha))]
			}
			return `"` + string(b) + `"`
		}
		return []string{"true", "false", `"zz"`, `""`}[r.Intn(4)]
	case 4, 5:
		n := r.Intn(4)
		el := []string{}
		for i := 0; i < n; i++ {
			el = append(el, genJSON(r, depth+1))
		}
		return "[" + strings.Join(el, ",") + "]"
	default:
		n := r.Intn(4)
		el := []string{}
		for i := 0; i < n; i++ {
			el = append(el, `"`+[]string{"a", "block", "hash", "info", "b"}[r.Intn(5)]+`":`+genJSON(r, depth+1))
		}
		return "{" + strings.Join(el, ",") + "}"
	}
}

func hxs(b []byte) string {
	if len(b) == 0 {
		return ""
	}
	return hx(b)
}
