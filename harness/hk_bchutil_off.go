//go:build verif_nohook_bchutil

package main

// Stubs used when /repo's verif hooks of package bchutil no longer compile against the modified tree:
// the ops that need them report HARNESS:hook-unavailable and only the properties relying on them are affected.
import "github.com/gcash/bchutil"

func hk_bchutil_PolyMod(v []byte) uint64 {
	panic("harness: hook bchutil.VerifPolyMod unavailable")
}

func hk_bchutil_ConvertBits(data []byte, fromBits, toBits uint, pad bool) ([]byte, error) {
	panic("harness: hook bchutil.VerifConvertBits unavailable")
}

func hk_bchutil_PackAddressData(t bchutil.AddressType, hash []byte) ([]byte, error) {
	panic("harness: hook bchutil.VerifPackAddressData unavailable")
}

func hk_bchutil_CheckEncodeCashAddress(input []byte, prefix string, t bchutil.AddressType) string {
	panic("harness: hook bchutil.VerifCheckEncodeCashAddress unavailable")
}

func hk_bchutil_CheckDecodeCashAddress(input string) ([]byte, string, bchutil.AddressType, error) {
	panic("harness: hook bchutil.VerifCheckDecodeCashAddress unavailable")
}

func hk_bchutil_CharsetRev() [128]int8 {
	panic("harness: hook bchutil.VerifCharsetRev unavailable")
}
