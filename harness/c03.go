package main

import (
	"strings"

	"github.com/gcash/bchutil/bech32"
)

func execC03(c Case) string {
	a := c.Args
	switch c.Op {
	case "bpm":
		vals := []int{}
		for _, t := range splitOr(a[0], ",") {
			vals = append(vals, atoi(t))
		}
		return itoa(hk_bech32_Polymod(vals))
	case "bdec", "bsub":
		h, d, err := bech32.Decode(string(unhx(a[len(a)-1])))
		if err != nil {
			return bechErr(err)
		}
		return "ok:" + hs(h) + ":" + hx(d)
	}
	return execAddr(c)
}

// spec-side bech32 (BIP173), independent of /repo
func specBechPolymod(values []int) int {
	gen := []int{0x3b6a57b2, 0x26508e6d, 0x1ea119fa, 0x3d4233dd, 0x2a1462b3}
	chk := 1
	for _, v := range values {
		b := chk >> 25
		chk = (chk&0x1ffffff)<<5 ^ v
		for i := 0; i < 5; i++ {
			if (b>>uint(i))&1 == 1 {
				chk ^= gen[i]
			}
		}
	}
	return chk
}

// bechWeight4 searches an error pattern of at most four symbol substitutions (positions counted over data ++ checksum,
// n symbols) whose checksum syndrome equals target, by meet-in-the-middle over pairs of single-symbol errors. The
// checksum is linear over GF(2), so the syndrome of a pattern is the xor of its single-symbol syndromes.
func bechWeight4(n int, target int) [][2]int {
	zero := make([]int, n)
	base := specBechPolymod(zero)
	type single struct{ pos, val, syn int }
	singles := []single{}
	for pos := 0; pos < n; pos++ {
		for v := 1; v < 32; v++ {
			w := make([]int, n)
			w[pos] = v
			singles = append(singles, single{pos, v, specBechPolymod(w) ^ base})
		}
	}
	pairs := map[int][2]int{}
	for i := range singles {
		for j := i + 1; j < len(singles); j++ {
			if singles[i].pos != singles[j].pos {
				pairs[singles[i].syn^singles[j].syn] = [2]int{i, j}
			}
		}
	}
	for syn, ij := range pairs {
		if kl, ok := pairs[syn^target]; ok {
			a, b, c, d := singles[ij[0]], singles[ij[1]], singles[kl[0]], singles[kl[1]]
			if a.pos != c.pos && a.pos != d.pos && b.pos != c.pos && b.pos != d.pos {
				return [][2]int{{a.pos, a.val}, {b.pos, b.val}, {c.pos, c.val}, {d.pos, d.val}}
			}
		}
	}
	return nil
}

func specBechEncode(hrp string, data []byte) []byte {
	vals := []int{}
	for i := 0; i < len(hrp); i++ {
		vals = append(vals, int(hrp[i]>>5))
	}
	vals = append(vals, 0)
	for i := 0; i < len(hrp); i++ {
		vals = append(vals, int(hrp[i]&31))
	}
	for _, d := range data {
		vals = append(vals, int(d))
	}
	vals = append(vals, 0, 0, 0, 0, 0, 0)
	pm := specBechPolymod(vals) ^ 1
	out := append([]byte{}, data...)
	for i := 0; i < 6; i++ {
		out = append(out, byte((pm>>uint(5*(5-i)))&31))
	}
	return out
}

func genC03(r *Rng, tier string, emit func(Case)) {
	e := func(op, cls string, args ...string) { emit(Case{op, cls, args}) }
	n := 1500
	if tier == "thorough" {
		n = 60000
	}
	prefixes := []string{"bitcoincash", "simpleledger", "bchtest", "slptest", "bchreg", "slpreg", "bchsim"}
	// bech32: substitutions of at most four symbols whose syndrome is the difference between the BIP173 constant 1 and
	// another plausible final constant (0, the bech32m constant 0x2bc830a3, all ones): a verifier that also accepts such
	// a constant accepts exactly these strings
	{
		lens := []int{21, 27}
		if tier == "thorough" {
			lens = []int{12, 21, 27, 33, 40, 52}
		}
		for _, nsym := range lens {
			for _, alt := range []int{0, 0x2bc830a3, 0x3fffffff} {
				pat := bechWeight4(nsym, 1^alt)
				if pat == nil {
					continue
				}
				hrp := "bc"
				data := r.Bytes(nsym - 6)
				for j := range data {
					data[j] &= 31
				}
				bs := specBechEncode(hrp, data)
				bm := append([]byte{}, bs...)
				for _, pv := range pat {
					bm[pv[0]] ^= byte(pv[1])
				}
				e("bsub", "altconst", hs(hrp+"1"+symsToString(bs)), hs(hrp+"1"+symsToString(bm)))
			}
		}
	}
	for i := 0; i < n; i++ {
		// ---- CashAddr
		pre := prefixes[r.Intn(len(prefixes))]
		hl := r.Pick(20, 20, 24, 28, 32, 32, 40, 48, 56, 64)
		ver := byte(r.Pick(0, 8) | map[int]int{20: 0, 24: 1, 28: 2, 32: 3, 40: 4, 48: 5, 56: 6, 64: 7}[hl])
		syms := specEncode5(pre, to5(append([]byte{ver}, r.Bytes(hl)...), 0))
		valid := pre + ":" + symsToString(syms)
		e("cdec", "valid", hs(valid))
		if i%25 == 0 {
			// shapes of the prefix part: missing, empty, containing digits, upper case, two separators
			pay := symsToString(syms)
			for _, pf := range []string{"bitc0in", "1", "a1", "9bch", ""} {
				cs := specEncode5(pf, to5(append([]byte{ver}, r.Bytes(hl)...), 0))
				e("cdec", "prefixshape", hs(pf+":"+symsToString(cs)))
			}
			e("cdec", "prefixshape", hs(pay))
			e("cdec", "prefixshape", hs(":"+pay))
			e("cdec", "prefixshape", hs(pre+"::"+pay))
			e("cdec", "prefixshape", hs(strings.ToUpper(pre)+":"+pay))
			e("cdec", "prefixshape", hs(pre+":"))
			e("cdec", "prefixshape", hs("qpzry"+strings.Map(func(c rune) rune {
				if c >= '0' && c <= '9' {
					return 'q'
				}
				return c
			}, pay))) // letters only, no separator
		}
		// 1..5 substitutions in the payload part (incl. checksum symbols)
		w := 1 + r.Intn(5)
		m := append([]byte{}, syms...)
		pos := map[int]bool{}
		for len(pos) < w {
			pos[r.Intn(len(m))] = true
		}
		burst := r.Intn(4) == 0
		if burst { // adjacent positions
			pos = map[int]bool{}
			st := r.Intn(len(m) - w + 1)
			for j := 0; j < w; j++ {
				pos[st+j] = true
			}
		}
		for p := range pos {
			m[p] ^= byte(1 + r.Intn(31))
		}
		e("csub", "w"+itoa(w), hs(valid), hs(pre+":"+symsToString(m)))
		// replacement by a non-charset byte / other-case letter / colon
		if r.Intn(3) == 0 {
			b := []byte(valid)
			k := len(pre) + 1 + r.Intn(len(syms))
			for j := len(pre) + 1; j < len(b); j++ { // prefer a position holding symbol 0 ('q')
				if b[j] == 'q' && r.Intn(3) > 0 {
					k = j
					break
				}
			}
			b[k] = []byte("bio1:Q -!~")[r.Intn(10)]
			e("csub", "foreign", hs(valid), hx(b))
		}
		// bit variants: 1..5 payload characters replaced by the SAME byte with one bit flipped (every bit 0..7: the
		// other case, a control byte, a byte with the top bit set, a neighbouring character) - the mistakes of table
		// look-ups and case folding done with masks; in the lower-case and in the upper-case rendering
		for _, base := range []string{valid, strings.ToUpper(valid)} {
			if r.Intn(2) == 0 {
				b := []byte(base)
				nb := 1 + r.Intn(5)
				bit := uint(r.Intn(8))
				same := r.Bool()
				for _, j := range r.Perm(len(syms)) {
					if nb == 0 {
						break
					}
					if !same {
						bit = uint(r.Intn(8))
					}
					b[len(pre)+1+j] ^= 1 << bit
					nb--
				}
				e("csub", "bitvariant", hs(base), hx(b))
			}
		}
		// case changes in the payload: 1..5 letters upper-cased, the last character always among them (mixed case is
		// rejected whatever the position); and a multi-byte rune that Unicode folds to an ASCII letter
		{
			b := []byte(valid)
			lp := []int{}
			for j := len(pre) + 1; j < len(b); j++ {
				if b[j] >= 'a' && b[j] <= 'z' {
					lp = append(lp, j)
				}
			}
			if len(lp) > 0 {
				nc := r.Intn(5)
				b[lp[len(lp)-1]] -= 32 // the last letter of the string
				for _, j := range r.Perm(len(lp) - 1) {
					if nc == 0 {
						break
					}
					b[lp[j]] -= 32
					nc--
				}
				e("csub", "case", hs(valid), hx(b))
			}
			if r.Intn(3) == 0 {
				e("csub", "utf8", hs(valid), hs(utf8Variant(r, valid)))
				e("csub", "utf8", hs(valid), hs(utf8Variant(r, strings.ToUpper(valid))))
			}
		}
		// chosen syndrome: xor a pattern into the 8 checksum symbols
		cs := append([]byte{}, syms...)
		var pat uint64
		switch r.Intn(4) {
		case 0:
			pat = 1 << uint(r.Intn(40))
		case 1:
			pat = r.U64() & 0xfffff // low half only
		case 2:
			pat = (r.U64() & 0xfffff) << 20 // high half only
		case 3:
			pat = r.U64() & 0xffffffffff
		}
		if pat == 0 {
			pat = 1
		}
		for j := 0; j < 8; j++ {
			cs[len(cs)-8+j] ^= byte((pat >> uint(5*(7-j))) & 31)
		}
		e("cdec", "syndrome", hs(pre+":"+symsToString(cs)))
		e("pm", "rand", hx(append(specPrefix(pre), m...)))
		// ---- bech32
		hrpl := 1 + r.Intn(12)
		hrp := make([]byte, hrpl)
		for j := range hrp {
			hrp[j] = "abcdefghijklmnopqrstuvwxyz023456789"[r.Intn(35)]
		}
		dl := r.Intn(90 - 7 - hrpl + 1)
		if r.Intn(4) == 0 {
			dl = 90 - 7 - hrpl
		}
		data := r.Bytes(dl)
		for j := range data {
			data[j] &= 31
		}
		bs := specBechEncode(string(hrp), data)
		bvalid := string(hrp) + "1" + strings.Map(func(c rune) rune { return c }, symsToString(bs))
		e("bdec", "valid", hs(bvalid))
		if len(bs) > 0 {
			w := 1 + r.Intn(4)
			if w > len(bs) {
				w = len(bs)
			}
			bm := append([]byte{}, bs...)
			pos := map[int]bool{}
			for len(pos) < w {
				pos[r.Intn(len(bm))] = true
			}
			for p := range pos {
				bm[p] ^= byte(1 + r.Intn(31))
			}
			e("bsub", "w"+itoa(w), hs(bvalid), hs(string(hrp)+"1"+symsToString(bm)))
			// replacement by characters outside the bech32 alphabet; preferably where the symbol is 0 ('q'), the value a
			// sloppy reverse table would give to any unknown character
			fb := []byte(bvalid)
			dpos := []int{}
			for j := len(hrp) + 1; j < len(fb); j++ {
				if fb[j] == 'q' {
					dpos = append(dpos, j)
				}
			}
			if len(dpos) == 0 || r.Intn(3) == 0 {
				dpos = []int{len(hrp) + 1 + r.Intn(len(bs))}
			}
			nf := 1 + r.Intn(4)
			for j := 0; j < nf && j < len(dpos); j++ {
				fb[dpos[j]] = []byte("bio!B~2#")[r.Intn(7)]
			}
			e("bsub", "foreign", hs(bvalid), hx(fb))
			if r.Intn(3) == 0 {
				e("bsub", "utf8", hs(bvalid), hs(utf8Variant(r, bvalid)))
				e("bsub", "utf8", hs(bvalid), hs(utf8Variant(r, strings.ToUpper(bvalid))))
			}
			// bit variants (see csub): 1..4 data characters with one bit of the byte flipped, lower- and upper-case base
			for _, base := range []string{bvalid, strings.ToUpper(bvalid)} {
				if r.Intn(2) == 0 {
					vb := []byte(base)
					nb := 1 + r.Intn(4)
					bit := uint(r.Intn(8))
					same := r.Bool()
					for _, j := range r.Perm(len(bs)) {
						if nb == 0 {
							break
						}
						if !same {
							bit = uint(r.Intn(8))
						}
						vb[len(hrp)+1+j] ^= 1 << bit
						nb--
					}
					e("bsub", "bitvariant", hs(base), hx(vb))
				}
			}
			// case changes: 1..4 letters of the data part upper-cased (a mixed-case string must be rejected)
			cb := []byte(bvalid)
			lpos := []int{}
			for j := len(hrp) + 1; j < len(cb); j++ {
				if cb[j] >= 'a' && cb[j] <= 'z' {
					lpos = append(lpos, j)
				}
			}
			if len(lpos) > 0 {
				nc := 1 + r.Intn(4)
				for _, j := range r.Perm(len(lpos)) {
					if nc == 0 {
						break
					}
					cb[lpos[j]] -= 32
					nc--
				}
				e("bsub", "case", hs(bvalid), hx(cb))
			}
			bc := append([]byte{}, bs...)
			pat := uint32(r.U64()) & 0x3fffffff
			if r.Bool() {
				pat = 1 << uint(r.Intn(30))
			}
			if pat == 0 {
				pat = 1
			}
			for j := 0; j < 6; j++ {
				bc[len(bc)-6+j] ^= byte((pat >> uint(5*(5-j))) & 31)
			}
			e("bdec", "syndrome", hs(string(hrp)+"1"+symsToString(bc)))
		}
		vals := []string{}
		for j := 0; j < r.Intn(30); j++ {
			vals = append(vals, itoa(r.Intn(32)))
		}
		e("bpm", "rand", joinOr(vals, ","))
	}
}
