//go:build !verif_nohook_gcs

package main

// Hooks of package gcs (compiled from /repo with -tags verif).
import "github.com/gcash/bchutil/gcs"

var (
	hk_gcs_FastReduction = gcs.VerifFastReduction
	hk_gcs_ModulusNP     = gcs.VerifModulusNP
)
