package main

import (
	"encoding/binary"
	"math"
	"sort"
	"strings"
	"time"

	"github.com/gcash/bchd/chaincfg/chainhash"
	"github.com/gcash/bchd/txscript"
	"github.com/gcash/bchd/wire"
	"github.com/gcash/bchutil"
	"github.com/gcash/bchutil/bloom"
	"github.com/gcash/bchutil/merkleblock"
)

func init() {
	props["C09"] = &Prop{Gen: genC09, Exec: execBloom}
	props["C10"] = &Prop{Gen: genC10, Exec: execBloom}
	props["C11"] = &Prop{Gen: genC11, Exec: execBloom}
	props["C12"] = &Prop{Gen: genC12, Exec: execBloom}
}

func mkFilter(a []string) *bloom.Filter {
	if a[0] == "nil" {
		return bloom.LoadFilter(nil) // an unloaded filter
	}
	return bloom.LoadFilter(mkMsg(a))
}
func mkMsg(a []string) *wire.MsgFilterLoad {
	return wire.NewMsgFilterLoad(append([]byte{}, unhx(a[0])...), uint32(atou(a[1])), uint32(atou(a[2])), wire.BloomUpdateType(atoi(a[3])))
}
func filterBits(f *bloom.Filter) string {
	m := f.MsgFilterLoad()
	if m == nil {
		return "nil"
	}
	return hx(m.Filter)
}
func mkHash(b []byte) *chainhash.Hash {
	var h chainhash.Hash
	copy(h[:], b)
	return &h
}

// ---- transactions in case lines:  txs '|'  tx = outs '!' ins ;  outs = script ',' ... ; ins = prevhash:idx:script ','...
func parseTx(s string) *wire.MsgTx {
	parts := strings.Split(s, "!")
	tx := wire.NewMsgTx(1)
	if parts[0] != "_" {
		for i, o := range strings.Split(parts[0], ",") {
			tx.AddTxOut(wire.NewTxOut(int64(i), unhx(o), wire.TokenData{}))
		}
	}
	if parts[1] != "_" {
		for _, in := range strings.Split(parts[1], ",") {
			f := strings.Split(in, ":")
			tx.AddTxIn(wire.NewTxIn(wire.NewOutPoint(mkHash(unhx(f[0])), uint32(atou(f[1]))), unhx(f[2])))
		}
	}
	return tx
}
func fmtTx(tx *wire.MsgTx) string {
	outs, ins := []string{}, []string{}
	for _, o := range tx.TxOut {
		outs = append(outs, hx(o.PkScript))
	}
	for _, in := range tx.TxIn {
		ins = append(ins, hx(in.PreviousOutPoint.Hash[:])+":"+u64s(uint64(in.PreviousOutPoint.Index))+":"+hx(in.SignatureScript))
	}
	o, i := "_", "_"
	if len(outs) > 0 {
		o = strings.Join(outs, ",")
	}
	if len(ins) > 0 {
		i = strings.Join(ins, ",")
	}
	return o + "!" + i
}
func pushesTok(script []byte) string {
	pd, err := txscript.PushedData(script)
	if err != nil {
		return "E"
	}
	if len(pd) == 0 {
		return "_"
	}
	t := []string{}
	for _, p := range pd {
		t = append(t, hx(p))
	}
	return strings.Join(t, ".")
}

// external results (tx id, pushed data, script class) the model takes as given
func extTx(tx *wire.MsgTx) string {
	h := tx.TxHash()
	outs, ins := []string{}, []string{}
	for _, o := range tx.TxOut {
		cls := txscript.GetScriptClass(o.PkScript)
		c := "0"
		if cls == txscript.PubKeyTy || cls == txscript.MultiSigTy {
			c = "1"
		}
		outs = append(outs, c+"~"+pushesTok(o.PkScript))
	}
	for _, in := range tx.TxIn {
		ins = append(ins, hx(in.PreviousOutPoint.Hash[:])+":"+u64s(uint64(in.PreviousOutPoint.Index))+"~"+pushesTok(in.SignatureScript))
	}
	return hx(h[:]) + "!" + joinOr(outs, ",") + "!" + joinOr(ins, ",")
}

func idxList(m map[int]bool) string {
	k := []int{}
	for i, v := range m {
		if v {
			k = append(k, i)
		}
	}
	sort.Ints(k)
	s := []string{}
	for _, i := range k {
		s = append(s, itoa(i))
	}
	return joinOr(s, ",")
}
func u32List(v []uint32) string {
	s := []string{}
	for _, i := range v {
		s = append(s, u64s(uint64(i)))
	}
	return joinOr(s, ",")
}
func hashList(v []*chainhash.Hash) string {
	s := []string{}
	for _, h := range v {
		s = append(s, hx(h[:]))
	}
	return joinOr(s, ",")
}
func mmsgTok(m *wire.MsgMerkleBlock) string {
	t := u64s(uint64(m.Transactions)) + "/" + hashList(m.Hashes) + "/" + hx(m.Flags)
	// every block built by the harness carries testHeader: the message must carry the block's header
	if m.Header != testHeader {
		t += "!header"
	}
	return t
}

var testHeader = wire.BlockHeader{Version: 0x20000002, PrevBlock: chainhash.Hash{1, 2, 3}, MerkleRoot: chainhash.Hash{9, 8, 7},
	Timestamp: time.Unix(1600000000, 0), Bits: 0x1d00ffff, Nonce: 0x12345678}

func extractTok(m *wire.MsgMerkleBlock) string {
	pb := merkleblock.NewMerkleBlockFromMsg(*m)
	root := pb.ExtractMatches()
	r := "nil"
	if root != nil {
		r = hx(root[:])
	}
	first := r + "/" + hashList(pb.GetMatches()) + "/" + u32List(pb.GetItems()) + "/" + b2s(pb.BadTree())
	// extraction is a function of the message: a second call on the same object must give the same answer
	root2 := pb.ExtractMatches()
	r2 := "nil"
	if root2 != nil {
		r2 = hx(root2[:])
	}
	second := r2 + "/" + hashList(pb.GetMatches()) + "/" + u32List(pb.GetItems()) + "/" + b2s(pb.BadTree())
	if second == first {
		return first + "/same"
	}
	return first + "/again:" + second
}

func synthTx(salt uint32, i int) *wire.MsgTx {
	tx := wire.NewMsgTx(1)
	sc := make([]byte, 8)
	binary.LittleEndian.PutUint32(sc, salt)
	binary.LittleEndian.PutUint32(sc[4:], uint32(i))
	tx.AddTxIn(wire.NewTxIn(wire.NewOutPoint(&chainhash.Hash{}, 0xffffffff), sc))
	tx.AddTxOut(wire.NewTxOut(int64(i), nil, wire.TokenData{}))
	return tx
}

func expandHash(tok string) *chainhash.Hash {
	b := unhx(tok)
	if len(b) == 1 {
		full := make([]byte, 32)
		for i := range full {
			full[i] = b[0]
		}
		b = full
	}
	return mkHash(b)
}

func execBloom(c Case) string {
	a := c.Args
	switch c.Op {
	case "murmur":
		return u64s(uint64(bloom.MurmurHash3(uint32(atou(a[0])), unhx(a[1]))))
	case "hist":
		f := mkFilter(a)
		ans := []string{}
		for _, op := range splitOr(a[4], ";") {
			t := strings.Split(op, ":")
			switch t[0] {
			case "a":
				f.Add(unhx(t[1]))
				ans = append(ans, ".")
			case "h":
				f.AddHash(mkHash(unhx(t[1])))
				ans = append(ans, ".")
			case "o":
				f.AddOutPoint(wire.NewOutPoint(mkHash(unhx(t[1])), uint32(atou(t[2]))))
				ans = append(ans, ".")
			case "m":
				ans = append(ans, b2s(f.Matches(unhx(t[1]))))
			case "p":
				ans = append(ans, b2s(f.MatchesOutPoint(wire.NewOutPoint(mkHash(unhx(t[1])), uint32(atou(t[2]))))))
			case "r":
				f.Reload(mkMsg(t[1:5]))
				ans = append(ans, ".")
			case "u":
				f.Unload()
				ans = append(ans, ".")
			case "l":
				ans = append(ans, b2s(f.IsLoaded()))
			default:
				panic("harness: hist op")
			}
		}
		return joinOr(ans, ",") + " " + filterBits(f)
	case "histobj":
		// a history over message *objects*: the filter holds a pointer to a caller-owned wire.MsgFilterLoad and
		// inserts into it in place; R:<k> reloads the k-th object of this history again (0 = the initial one),
		// g asks which object MsgFilterLoad() hands out. Observed: the answers and the bit arrays of all objects.
		msgs := []*wire.MsgFilterLoad{}
		var f *bloom.Filter
		if a[0] == "nil" {
			f = bloom.LoadFilter(nil)
		} else {
			m0 := mkMsg(a)
			msgs = append(msgs, m0)
			f = bloom.LoadFilter(m0)
		}
		ans := []string{}
		for _, op := range splitOr(a[4], ";") {
			t := strings.Split(op, ":")
			switch t[0] {
			case "a":
				f.Add(unhx(t[1]))
				ans = append(ans, ".")
			case "o":
				f.AddOutPoint(wire.NewOutPoint(mkHash(unhx(t[1])), uint32(atou(t[2]))))
				ans = append(ans, ".")
			case "m":
				ans = append(ans, b2s(f.Matches(unhx(t[1]))))
			case "r":
				m := mkMsg(t[1:5])
				msgs = append(msgs, m)
				f.Reload(m)
				ans = append(ans, ".")
			case "R":
				k := atoi(t[1])
				if k < len(msgs) {
					f.Reload(msgs[k])
				}
				ans = append(ans, ".")
			case "u":
				f.Unload()
				ans = append(ans, ".")
			case "l":
				ans = append(ans, b2s(f.IsLoaded()))
			case "g":
				got := f.MsgFilterLoad()
				id := "?"
				if got == nil {
					id = "n"
				}
				for k, m := range msgs {
					if m == got {
						id = itoa(k)
					}
				}
				ans = append(ans, id)
			default:
				panic("harness: histobj op")
			}
		}
		objs := []string{}
		for _, m := range msgs {
			objs = append(objs, hx(m.Filter)+"/"+u64s(uint64(m.HashFuncs))+"/"+u64s(uint64(m.Tweak))+"/"+itoa(int(m.Flags)))
		}
		return joinOr(ans, ",") + " " + joinOr(objs, "|")
	case "newfilter":
		f := bloom.NewFilter(uint32(atou(a[0])), uint32(atou(a[1])), math.Float64frombits(atou(a[2])), wire.BloomUpdateType(atoi(a[3])))
		m := f.MsgFilterLoad()
		return itoa(len(m.Filter)) + " " + u64s(uint64(m.HashFuncs)) + " " + u64s(uint64(m.Tweak)) + " " + itoa(int(m.Flags))
	case "txm":
		f := mkFilter(a)
		ext, res := []string{}, []string{}
		for _, ts := range strings.Split(a[4], "|") {
			mtx := parseTx(ts)
			ext = append(ext, extTx(mtx))
			res = append(res, b2s(f.MatchTxAndUpdate(bchutil.NewTx(mtx))))
		}
		return "EXT " + strings.Join(ext, "|") + " RES " + strings.Join(res, ",") + " " + filterBits(f)
	case "blk":
		hdr := testHeader
		blk := wire.NewMsgBlock(&hdr)
		ext := []string{}
		if a[4] != "-" {
			for _, ts := range strings.Split(a[4], "|") {
				mtx := parseTx(ts)
				ext = append(ext, extTx(mtx))
				blk.AddTransaction(mtx)
			}
		}
		f1 := mkFilter(a)
		// the positions reported are positions in the block, whatever index the transaction wrappers carry (a caller
		// may have relabelled them: Tx.SetIndex is exported)
		b1 := bchutil.NewBlock(blk)
		for i, t := range b1.Transactions() {
			t.SetIndex([]int{bchutil.TxIndexUnknown, i + 1, 0}[i%3])
		}
		r1 := idxList(bloom.GetMatchedIndices(b1, f1))
		res := []string{r1, filterBits(f1)}
		if len(blk.Transactions) > 0 {
			f2 := mkFilter(a)
			m2, i2 := bloom.NewMerkleBlock(bchutil.NewBlock(blk), f2)
			f3 := mkFilter(a)
			m3, i3 := merkleblock.NewMerkleBlockWithFilter(bchutil.NewBlock(blk), f3)
			res = append(res, u32List(i2), mmsgTok(m2), filterBits(f2), u32List(i3), mmsgTok(m3), filterBits(f3), extractTok(m3))
		}
		return "EXT " + joinOr(ext, "|") + " RES " + strings.Join(res, " ")
	case "mb": // mb <n> <salt> <matched bits> <dups>
		n := atoi(a[0])
		salt := uint32(atou(a[1]))
		hdr := testHeader
		blk := wire.NewMsgBlock(&hdr)
		leaves := []string{}
		set := []*chainhash.Hash{}
		for i := 0; i < n; i++ {
			j := i
			if a[3] != "-" && strings.Contains(","+a[3]+",", ","+itoa(i)+",") {
				j = i - 1 // duplicate of the previous transaction
			}
			tx := synthTx(salt, j)
			blk.AddTransaction(tx)
			h := tx.TxHash()
			leaves = append(leaves, hx(h[:]))
			if a[2][i] == '1' {
				hh := h
				set = append(set, &hh)
			}
		}
		// decoys: for every transaction that is NOT chosen the set also holds hashes that differ from its hash in one
		// byte only (first, last, and a position depending on the index) - they are not in the block and select nothing
		for i, t := range blk.Transactions {
			if a[2][i] == '1' {
				continue
			}
			for _, pos := range []int{0, 31, (i * 7) % 32} {
				d := t.TxHash()
				d[pos] ^= 1 << uint(i%8)
				dd := d
				set = append(set, &dd)
			}
		}
		// ONE block object for all the proofs of this case: its transaction wrappers memoise their hashes, and the
		// leaf hashes of a proof are those memo objects - a builder must not write into them
		theBlock := bchutil.NewBlock(blk)
		if n > 0 && salt%2 == 0 {
			// a caller has looked at single transactions first (the block's lazily filled wrapper cache is then partly
			// populated): the builders still see the whole block
			theBlock.TxHash(int(salt) % n)
			theBlock.Tx(0)
		}
		m, idx := merkleblock.NewMerkleBlockWithTxnSet(theBlock, set)
		res := mmsgTok(m) + " " + u32List(idx) + " " + extractTok(m)
		// a proof that was handed out stays what it was while later proofs are built (other subsets, other blocks)
		var none []*chainhash.Hash
		all := []*chainhash.Hash{}
		for _, t := range blk.Transactions {
			h := t.TxHash()
			all = append(all, &h)
		}
		merkleblock.NewMerkleBlockWithTxnSet(theBlock, all)
		merkleblock.NewMerkleBlockWithTxnSet(theBlock, none)
		if m2, idx2 := merkleblock.NewMerkleBlockWithTxnSet(theBlock, set); mmsgTok(m2)+" "+u32List(idx2)+" "+extractTok(m2) != res {
			return "EXT " + strings.Join(leaves, ",") + " RES " + res + " SECOND-PROOF-FROM-THE-SAME-BLOCK-DIFFERS"
		}
		merkleblock.NewMerkleBlockWithTxnSet(bchutil.NewBlock(synthBlock(n+5, salt+1, false)), all)
		if again := mmsgTok(m) + " " + u32List(idx) + " " + extractTok(m); again != res {
			return "EXT " + strings.Join(leaves, ",") + " RES " + res + " LATER " + again
		}
		return "EXT " + strings.Join(leaves, ",") + " RES " + res
	case "exlim": // exlim <numTx> <hashes> <flags>: ex while bchd's process-wide block size setting is doubled
		wire.SetLimits(64000000)
		defer wire.SetLimits(32000000)
		m := wire.MsgMerkleBlock{Transactions: uint32(atou(a[0])), Flags: unhx(a[2])}
		for _, t := range splitOr(a[1], ",") {
			m.Hashes = append(m.Hashes, expandHash(t))
		}
		return extractTok(&m)
	case "ex": // ex <numTx> <hashes> <flags>
		m := wire.MsgMerkleBlock{Transactions: uint32(atou(a[0])), Flags: unhx(a[2])}
		for _, t := range splitOr(a[1], ",") {
			m.Hashes = append(m.Hashes, expandHash(t))
		}
		return extractTok(&m)
	}
	panic("harness: op " + c.Op)
}

// ------------------------------------------------------------------ generators

func genItem(r *Rng) []byte {
	if r.Intn(40) == 0 {
		return r.Bytes(r.Pick(255, 256, 257, 300, 520))
	}
	return r.Bytes(r.Pick(0, 1, 2, 3, 4, 5, 6, 7, 8, 20, 32, 33, 36, 65, r.Intn(80)))
}

func genFilterArgs(r *Rng, small bool) []string {
	ln := r.Pick(1, 2, 3, 7, 8, 9, 16, 64, 255, 256)
	if !small && r.Intn(6) == 0 {
		ln = r.Pick(35999, 36000, 4096)
	}
	if r.Intn(40) == 0 {
		ln = 0
	}
	nh := r.Intn(51)
	if r.Intn(3) == 0 {
		nh = r.Pick(0, 1, 2, 5, 11, 50)
	}
	if r.Intn(25) == 0 {
		nh = r.Pick(51, 64, 200) // beyond the wire limit: LoadFilter does not validate, insertion and test must still agree
	}
	tw := uint32(r.U64())
	if r.Intn(4) == 0 {
		tw = uint32(r.Pick(0, 1, 0xffffffff, 0x045b3a6b)) // last: makes i*0xfba4c795+tweak wrap at i=1
	}
	bits := make([]byte, ln)
	if r.Intn(3) == 0 {
		bits = r.Bytes(ln)
	}
	fl := r.Intn(3)
	if r.Intn(10) == 0 {
		fl = r.Pick(3, 4, 0x81, 0x82, 0xff) // legal on the wire, no named meaning
	}
	return []string{hx(bits), itoa(nh), u64s(uint64(tw)), itoa(fl)}
}

func genC09(r *Rng, tier string, emit func(Case)) {
	e := func(op, cls string, args ...string) { emit(Case{op, cls, args}) }
	n := 400
	if tier == "thorough" {
		n = 10000
	}
	// special outpoints (the null outpoint of a coinbase input: zero hash, index 2^32-1; all-ones hash; index 0) and
	// special items (empty, 520 and 521 bytes = around MaxFilterAddDataSize, one zero byte) inserted and queried in
	// filters of the boundary sizes (1, 35999 and 36000 bytes = MaxFilterLoadFilterSize) and hash counts (0, 1, 50)
	{
		z, o := strings.Repeat("00", 32), strings.Repeat("ff", 32)
		ops := []string{}
		for _, h := range []string{z, o} {
			for _, ix := range []string{"4294967295", "0", "1"} {
				ops = append(ops, "p:"+h+":"+ix, "o:"+h+":"+ix, "p:"+h+":"+ix)
			}
		}
		for _, l := range []int{0, 1, 520, 521, 1000} {
			it := hx(make([]byte, l))
			if l == 0 {
				it = "-"
			}
			ops = append(ops, "m:"+it, "a:"+it, "m:"+it)
		}
		for _, fl := range []int{1, 2, 35999, 36000} {
			for _, nh := range []int{0, 1, 50, 51, 200} {
				e("hist", "special", hx(make([]byte, fl)), itoa(nh), "7", "0", strings.Join(ops, ";"))
			}
		}
		e("hist", "special", "-", "3", "7", "0", strings.Join(ops, ";"))
	}
	// murmur: every length mod 4, high bytes in tail
	for l := 0; l <= 9; l++ {
		for _, seed := range []uint32{0, 1, 0xffffffff, 0xfba4c795} {
			b := r.Bytes(l)
			e("murmur", "len"+itoa(l%4), u64s(uint64(seed)), hx(b))
			for j := range b {
				b[j] |= 0x80
			}
			e("murmur", "high", u64s(uint64(seed)), hx(b))
		}
	}
	for _, l := range []int{127, 128, 129, 255, 256, 257, 258, 259, 511, 512, 513, 65535, 65536, 65537} {
		e("murmur", "long", u64s(uint64(uint32(r.U64()))), hx(r.Bytes(l)))
	}
	for i := 0; i < n; i++ {
		e("murmur", "rand", u64s(uint64(uint32(r.U64()))), hx(genItem(r)))
		fa := genFilterArgs(r, false)
		ops := []string{}
		items := [][]byte{}
		no := 1 + r.Intn(14)
		for j := 0; j < no; j++ {
			switch k := r.Intn(12); {
			case k < 3:
				it := genItem(r)
				items = append(items, it)
				ops = append(ops, "a:"+hx(it))
			case k == 3:
				h := r.Bytes(32)
				items = append(items, h)
				ops = append(ops, "h:"+hx(h))
			case k == 4:
				h := r.Bytes(32)
				idx := uint32(r.Pick(0, 1, 255, 256, 0xffffffff, 0x10000, 0x01000000, 0x01020304, 0x80000000, int(r.U64()&0xffff), int(r.U64()&0xffffffff), int(r.U64()&0xffffffff)))
				buf := append(append([]byte{}, h...), 0, 0, 0, 0)
				binary.LittleEndian.PutUint32(buf[32:], idx)
				items = append(items, buf)
				ops = append(ops, "o:"+hx(h)+":"+u64s(uint64(idx)))
			case k < 8 && len(items) > 0: // query an inserted item (possibly via the outpoint form)
				it := items[r.Intn(len(items))]
				if len(it) == 36 && r.Bool() {
					ops = append(ops, "p:"+hx(it[:32])+":"+u64s(uint64(binary.LittleEndian.Uint32(it[32:]))))
				} else {
					ops = append(ops, "m:"+hx(it))
				}
			case k < 10:
				ops = append(ops, "m:"+hx(genItem(r)))
			case k == 10:
				switch r.Intn(4) {
				case 0:
					ops = append(ops, "u")
				case 1:
					ops = append(ops, "r:"+strings.Join(genFilterArgs(r, true), ":"))
				default:
					ops = append(ops, "l")
				}
			default:
				ops = append(ops, "p:"+hx(r.Bytes(32))+":"+u64s(r.U64()&0xffffffff))
			}
		}
		e("hist", "len"+itoa(len(unhx(fa[0]))), fa[0], fa[1], fa[2], fa[3], strings.Join(ops, ";"))
		// histories over message objects: an earlier object is loaded again (it kept what was inserted into it)
		if i%3 == 0 {
			fo := genFilterArgs(r, true)
			if r.Intn(3) == 0 {
				fo[3] = itoa(r.Pick(3, 4, 128, 255)) // flag bytes beyond the three update modes are carried, not interpreted
			}
			nobj := 1
			oops := []string{}
			oitems := [][]byte{}
			for j, no := 0, 4+r.Intn(12); j < no; j++ {
				switch k := r.Intn(10); {
				case k < 3:
					it := genItem(r)
					oitems = append(oitems, it)
					oops = append(oops, "a:"+hx(it))
				case k < 5 && len(oitems) > 0:
					oops = append(oops, "m:"+hx(oitems[r.Intn(len(oitems))]))
				case k == 5:
					oops = append(oops, "r:"+strings.Join(genFilterArgs(r, true), ":"))
					nobj++
				case k < 8:
					oops = append(oops, "R:"+itoa(r.Intn(nobj)))
				case k == 8:
					oops = append(oops, "g")
				default:
					oops = append(oops, []string{"u", "l", "g"}[r.Intn(3)])
				}
			}
			e("histobj", "objs", fo[0], fo[1], fo[2], fo[3], strings.Join(oops, ";"))
		}
		// sizing
		el := uint32(r.Pick(0, 1, 2, 10, 100, 1000, 100000, 0x7fffffff, 0xffffffff, int(r.U64()&0xfffff)))
		fps := []float64{-1, 0, 1e-12, 1e-9, 1e-6, 0.0001, 0.01, 0.5, 1, 2, math.NaN(), math.Inf(1), math.Inf(-1), math.Float64frombits(r.U64())}
		fp := fps[r.Intn(len(fps))]
		e("newfilter", "sizing", u64s(uint64(el)), u64s(uint64(uint32(r.U64()))), u64s(math.Float64bits(fp)), itoa(r.Intn(3)))
	}
}

// ---- scripts
func p2pkh(h []byte) []byte {
	return append(append([]byte{0x76, 0xa9, 0x14}, h...), 0x88, 0xac)
}
func p2sh(h []byte) []byte { return append(append([]byte{0xa9, 0x14}, h...), 0x87) }
func p2pk(pk []byte) []byte {
	return append(append([]byte{byte(len(pk))}, pk...), 0xac)
}
func multisig(pks ...[]byte) []byte {
	s := []byte{0x51}
	for _, p := range pks {
		s = append(append(s, byte(len(p))), p...)
	}
	return append(s, byte(0x50+len(pks)), 0xae)
}
func pushOnly(items ...[]byte) []byte {
	s := []byte{}
	for _, it := range items {
		if len(it) == 0 {
			s = append(s, 0x00)
		} else if len(it) < 76 {
			s = append(append(s, byte(len(it))), it...)
		} else {
			s = append(append(s, 0x4c, byte(len(it))), it...)
		}
	}
	return s
}

type genCtx struct {
	r      *Rng
	secret [][]byte // data elements the filter is seeded with
}

func (g *genCtx) elem(n int) []byte {
	r := g.r
	if len(g.secret) > 0 && r.Intn(3) == 0 {
		for _, s := range g.secret {
			if len(s) == n {
				return s
			}
		}
	}
	return r.Bytes(n)
}

func (g *genCtx) outScript() []byte {
	r := g.r
	switch r.Intn(10) {
	case 0:
		return p2pkh(g.elem(20))
	case 1:
		return p2sh(g.elem(20))
	case 2:
		pk := g.elem(33)
		pk[0] = 2 | pk[0]&1
		return p2pk(pk)
	case 3:
		a, b := g.elem(33), g.elem(33)
		a[0], b[0] = 2, 3
		return multisig(a, b)
	case 4:
		return append([]byte{0x6a}, pushOnly(g.elem(r.Pick(1, 4, 20, 36)))...)
	case 5:
		return pushOnly(g.elem(20), nil, g.elem(r.Pick(1, 32)))
	case 6:
		return []byte{0x14, 1, 2, 3} // truncated push: unparsable
	case 7:
		return []byte{}
	case 8:
		return pushOnly(nil)
	}
	return p2pkh(g.elem(20))
}

func (g *genCtx) sigScript() []byte {
	r := g.r
	switch r.Intn(5) {
	case 0:
		return pushOnly(r.Bytes(71), g.elem(33))
	case 1:
		return []byte{}
	case 2:
		return []byte{0x4c, 0xff, 1} // unparsable
	case 3:
		return pushOnly(g.elem(20))
	}
	return pushOnly(r.Bytes(72))
}

// genBlock builds k transactions with an intra-block spend graph, returns them in dependency order
func (g *genCtx) genBlock(k int, shape int) []*wire.MsgTx {
	r := g.r
	txs := []*wire.MsgTx{}
	for i := 0; i < k; i++ {
		tx := wire.NewMsgTx(1)
		nout := 1 + r.Intn(3)
		for j := 0; j < nout; j++ {
			tx.AddTxOut(wire.NewTxOut(int64(j), g.outScript(), wire.TokenData{})) // value = output index: parseTx rebuilds exactly this
		}
		nin := 1 + r.Intn(2)
		for j := 0; j < nin; j++ {
			var prev wire.OutPoint
			inBlock := i > 0 && r.Intn(3) > 0
			switch shape {
			case 1: // chain
				inBlock = i > 0
			case 2: // none in block
				inBlock = false
			}
			if inBlock {
				p := r.Intn(i)
				if shape == 1 {
					p = i - 1
				}
				prev = wire.OutPoint{Hash: txs[p].TxHash(), Index: uint32(r.Intn(len(txs[p].TxOut) + 1))}
				if shape == 1 {
					prev.Index = uint32(j % len(txs[p].TxOut))
				}
			} else {
				prev = wire.OutPoint{Hash: *mkHash(g.elem(32)), Index: uint32(r.Intn(3))}
			}
			tx.AddTxIn(wire.NewTxIn(&prev, g.sigScript()))
		}
		txs = append(txs, tx)
	}
	return txs
}

func order(r *Rng, txs []*wire.MsgTx, mode int) []*wire.MsgTx {
	out := append([]*wire.MsgTx{}, txs...)
	switch mode {
	case 1: // reverse
		for i, j := 0, len(out)-1; i < j; i, j = i+1, j-1 {
			out[i], out[j] = out[j], out[i]
		}
	case 2: // CTOR: lexicographic by txid (as displayed = reversed bytes)
		sort.Slice(out, func(i, j int) bool {
			a, b := out[i].TxHash(), out[j].TxHash()
			for k := 31; k >= 0; k-- {
				if a[k] != b[k] {
					return a[k] < b[k]
				}
			}
			return false
		})
	case 3:
		for i := len(out) - 1; i > 0; i-- {
			j := r.Intn(i + 1)
			out[i], out[j] = out[j], out[i]
		}
	}
	return out
}

func seededFilter(g *genCtx, txs []*wire.MsgTx) []string {
	r := g.r
	ln := r.Pick(1, 2, 4, 8, 32, 128, 1024)
	nh := r.Pick(1, 2, 3, 5, 10, 0)
	tw := uint32(r.U64())
	flags := r.Intn(3)
	if r.Intn(10) == 0 {
		flags = r.Pick(3, 4, 0x81, 0x82, 0xff)
	}
	f := bloom.LoadFilter(wire.NewMsgFilterLoad(make([]byte, ln), uint32(nh), tw, wire.BloomUpdateType(flags)))
	for _, s := range g.secret {
		if r.Intn(3) > 0 {
			f.Add(s)
		}
	}
	if len(txs) > 0 {
		for k := 0; k < r.Intn(3); k++ {
			t := txs[r.Intn(len(txs))]
			switch r.Intn(3) {
			case 0:
				h := t.TxHash()
				f.AddHash(&h)
			case 1:
				if len(t.TxIn) > 0 {
					f.AddOutPoint(&t.TxIn[0].PreviousOutPoint)
				}
			case 2:
				h := t.TxHash()
				f.AddOutPoint(wire.NewOutPoint(&h, 0))
			}
		}
	}
	return []string{hx(f.MsgFilterLoad().Filter), itoa(nh), u64s(uint64(tw)), itoa(flags)}
}

func fmtTxs(txs []*wire.MsgTx) string {
	s := []string{}
	for _, t := range txs {
		s = append(s, fmtTx(t))
		if parseTx(fmtTx(t)).TxHash() != t.TxHash() {
			panic("harness: case line does not reproduce the transaction (spend links would be lost)")
		}
	}
	return joinOr(s, "|")
}

// directedBlocks emits the directed transaction-filtering cases shared by C10 and C11 (both builders are compared in
// every `blk` case): each match condition alone, and parent / child / grandchild spend graphs per script class, flag
// and block order.
func directedBlocks(r *Rng, tier string, e func(op, cls string, args ...string)) {
	// directed: every one of the four ways a transaction can match, alone: txid / output push / spent outpoint /
	// input-script push; with ordinary inputs and with a coinbase-shaped input (null outpoint)
	for rep := 0; rep < 6; rep++ {
		for way := 0; way < 4; way++ {
			for cb := 0; cb < 2; cb++ {
				elem := r.Bytes(r.Pick(20, 33, 32))
				tx := wire.NewMsgTx(1)
				prev := wire.OutPoint{Hash: *mkHash(r.Bytes(32)), Index: uint32(r.Intn(3))}
				if cb == 1 {
					prev = wire.OutPoint{Index: 0xffffffff}
				}
				sig := pushOnly(r.Bytes(70))
				if way == 3 {
					sig = pushOnly(r.Bytes(4), elem)
				}
				tx.AddTxIn(wire.NewTxIn(&prev, sig))
				out := p2pkh(r.Bytes(20))
				if way == 1 {
					out = pushOnly(elem)
				}
				tx.AddTxOut(wire.NewTxOut(0, out, wire.TokenData{}))
				f := bloom.LoadFilter(wire.NewMsgFilterLoad(make([]byte, 128), 4, uint32(r.U64()), wire.BloomUpdateType(r.Intn(3))))
				switch way {
				case 0:
					h := tx.TxHash()
					f.AddHash(&h)
				case 2:
					f.AddOutPoint(&prev)
				default:
					f.Add(elem)
				}
				m := f.MsgFilterLoad()
				fa := []string{hx(m.Filter), "4", u64s(uint64(m.Tweak)), itoa(int(m.Flags))}
				cls := "way:" + []string{"txid", "outpush", "outpoint", "inpush"}[way] + []string{"", ":coinbase"}[cb]
				e("txm", cls, fa[0], fa[1], fa[2], fa[3], fmtTxs([]*wire.MsgTx{tx}))
				e("blk", cls, fa[0], fa[1], fa[2], fa[3], fmtTxs([]*wire.MsgTx{tx}))
			}
		}
	}
	// directed: a parent whose output of each script class matches the filter through its pushed data, a child
	// that spends exactly that output and matches in no other way, a grandchild spending the child; every
	// update flag; child placed before / after the parent
	nd := 2
	if tier == "thorough" {
		nd = 40
	}
	for rep := 0; rep < nd; rep++ {
		for flags := 0; flags < 3; flags++ {
			for cls := 0; cls < 4; cls++ {
				for mode := 0; mode < 3; mode++ {
					key := r.Bytes(33)
					key[0] = 2
					h20 := r.Bytes(20)
					var sc []byte
					var elem []byte
					switch cls {
					case 0:
						sc, elem = p2pk(key), key
					case 1:
						k2 := r.Bytes(33)
						k2[0] = 3
						sc, elem = multisig(k2, key), key
					case 2:
						sc, elem = p2pkh(h20), h20
					case 3:
						sc, elem = p2sh(h20), h20
					}
					parent := wire.NewMsgTx(1)
					parent.AddTxIn(wire.NewTxIn(&wire.OutPoint{Hash: *mkHash(r.Bytes(32)), Index: 7}, pushOnly(r.Bytes(70))))
					parent.AddTxOut(wire.NewTxOut(0, p2pkh(r.Bytes(20)), wire.TokenData{}))
					parent.AddTxOut(wire.NewTxOut(1, sc, wire.TokenData{}))
					ph := parent.TxHash()
					child := wire.NewMsgTx(1)
					child.AddTxIn(wire.NewTxIn(&wire.OutPoint{Hash: ph, Index: 1}, pushOnly(r.Bytes(71))))
					child.AddTxOut(wire.NewTxOut(0, p2pkh(r.Bytes(20)), wire.TokenData{}))
					ch := child.TxHash()
					grand := wire.NewMsgTx(1)
					grand.AddTxIn(wire.NewTxIn(&wire.OutPoint{Hash: ch, Index: 0}, pushOnly(r.Bytes(71))))
					grand.AddTxOut(wire.NewTxOut(0, p2sh(r.Bytes(20)), wire.TokenData{}))
					other := wire.NewMsgTx(1)
					other.AddTxIn(wire.NewTxIn(&wire.OutPoint{Hash: ph, Index: 0}, pushOnly(r.Bytes(71))))
					other.AddTxOut(wire.NewTxOut(0, p2pkh(r.Bytes(20)), wire.TokenData{}))
					f := bloom.LoadFilter(wire.NewMsgFilterLoad(make([]byte, 256), 5, uint32(r.U64()), wire.BloomUpdateType(flags)))
					f.Add(elem)
					fa := []string{hx(f.MsgFilterLoad().Filter), "5", u64s(uint64(f.MsgFilterLoad().Tweak)), itoa(flags)}
					txs := []*wire.MsgTx{parent, child, grand, other}
					e("blk", "spend:"+[]string{"p2pk", "multisig", "p2pkh", "p2sh"}[cls]+":f"+itoa(flags), fa[0], fa[1], fa[2], fa[3], fmtTxs(order(r, txs, []int{0, 1, 3}[mode])))
				}
			}
		}
	}
	// directed: the degenerate filters - loaded with an EMPTY bit array (matches everything, never updated) and
	// unloaded (matches nothing) - on blocks of 1..4 transactions, every flag
	for flags := 0; flags < 3; flags++ {
		for ntx := 1; ntx <= 4; ntx++ {
			txs := []*wire.MsgTx{}
			for j := 0; j < ntx; j++ {
				t := wire.NewMsgTx(1)
				t.AddTxIn(wire.NewTxIn(&wire.OutPoint{Hash: *mkHash(r.Bytes(32)), Index: uint32(j)}, pushOnly(r.Bytes(30))))
				t.AddTxOut(wire.NewTxOut(0, p2pkh(r.Bytes(20)), wire.TokenData{}))
				txs = append(txs, t)
			}
			e("blk", "emptybits:f"+itoa(flags), "-", itoa(r.Pick(0, 1, 5)), u64s(uint64(uint32(r.U64()))), itoa(flags), fmtTxs(txs))
			e("txm", "emptybits:f"+itoa(flags), "-", itoa(r.Pick(0, 1, 5)), u64s(uint64(uint32(r.U64()))), itoa(flags), fmtTxs(txs))
			e("blk", "unloaded", "nil", "0", "0", "0", fmtTxs(txs))
		}
	}
	// directed: a child with TWO parents. It spends an output of each; for each parent the spent output is either the
	// matching one (its outpoint enters the filter under the flag) or another, non-matching output of a parent that
	// still matches through its other output; all six orders of (child, parent1, parent2); every flag. The child is
	// relevant exactly when a spent output's outpoint was inserted - whichever parent comes first or last.
	for flags := 0; flags < 3; flags++ {
		for shape := 0; shape < 4; shape++ { // bit 0: child spends parent1's matching output; bit 1: parent2's
			for _, perm := range [][]int{{0, 1, 2}, {0, 2, 1}, {1, 0, 2}, {1, 2, 0}, {2, 0, 1}, {2, 1, 0}} {
				key := r.Bytes(33)
				key[0] = 2
				mkParent := func() *wire.MsgTx {
					p := wire.NewMsgTx(1)
					p.AddTxIn(wire.NewTxIn(&wire.OutPoint{Hash: *mkHash(r.Bytes(32)), Index: 7}, pushOnly(r.Bytes(70))))
					p.AddTxOut(wire.NewTxOut(0, p2pkh(r.Bytes(20)), wire.TokenData{})) // does not match
					p.AddTxOut(wire.NewTxOut(1, p2pk(key), wire.TokenData{}))          // matches, updatable under both flags
					return p
				}
				p1, p2 := mkParent(), mkParent()
				child := wire.NewMsgTx(1)
				child.AddTxIn(wire.NewTxIn(&wire.OutPoint{Hash: p1.TxHash(), Index: uint32(shape & 1)}, pushOnly(r.Bytes(71))))
				child.AddTxIn(wire.NewTxIn(&wire.OutPoint{Hash: p2.TxHash(), Index: uint32((shape >> 1) & 1)}, pushOnly(r.Bytes(71))))
				child.AddTxOut(wire.NewTxOut(0, p2sh(r.Bytes(20)), wire.TokenData{}))
				grand := wire.NewMsgTx(1)
				grand.AddTxIn(wire.NewTxIn(&wire.OutPoint{Hash: child.TxHash(), Index: 0}, pushOnly(r.Bytes(71))))
				grand.AddTxOut(wire.NewTxOut(0, p2sh(r.Bytes(20)), wire.TokenData{}))
				three := []*wire.MsgTx{child, p1, p2}
				txs := []*wire.MsgTx{three[perm[0]], three[perm[1]], three[perm[2]], grand}
				f := bloom.LoadFilter(wire.NewMsgFilterLoad(make([]byte, 256), 5, uint32(r.U64()), wire.BloomUpdateType(flags)))
				f.Add(key)
				fa := []string{hx(f.MsgFilterLoad().Filter), "5", u64s(uint64(f.MsgFilterLoad().Tweak)), itoa(flags)}
				e("blk", "twoparents:"+itoa(shape)+":f"+itoa(flags), fa[0], fa[1], fa[2], fa[3], fmtTxs(txs))
			}
		}
	}
	// directed: a child listed BEFORE its parent with many filter updates in between (N watched transactions whose
	// matched output adds an outpoint each); N around the wrap-around points of small counters
	ns := []int{254, 255, 256}
	if tier == "thorough" {
		ns = []int{1, 2, 126, 127, 128, 253, 254, 255, 256, 257, 509, 510, 511, 512, 765}
	}
	for _, n := range ns {
		key := r.Bytes(33)
		key[0] = 2
		parent := wire.NewMsgTx(1)
		parent.AddTxIn(wire.NewTxIn(&wire.OutPoint{Hash: *mkHash(r.Bytes(32)), Index: 7}, pushOnly(r.Bytes(70))))
		parent.AddTxOut(wire.NewTxOut(0, p2pk(key), wire.TokenData{}))
		ph := parent.TxHash()
		child := wire.NewMsgTx(1)
		child.AddTxIn(wire.NewTxIn(&wire.OutPoint{Hash: ph, Index: 0}, pushOnly(r.Bytes(71))))
		child.AddTxOut(wire.NewTxOut(0, p2pkh(r.Bytes(20)), wire.TokenData{}))
		txs := []*wire.MsgTx{child}
		for i := 0; i < n; i++ {
			fl := wire.NewMsgTx(1)
			fl.AddTxIn(wire.NewTxIn(&wire.OutPoint{Hash: *mkHash(r.Bytes(32)), Index: 3}, pushOnly(r.Bytes(70))))
			fl.AddTxOut(wire.NewTxOut(0, p2pk(key), wire.TokenData{}))
			txs = append(txs, fl)
		}
		txs = append(txs, parent)
		f := bloom.LoadFilter(wire.NewMsgFilterLoad(make([]byte, 8192), 3, uint32(r.U64()), wire.BloomUpdateAll))
		f.Add(key)
		fa := []string{hx(f.MsgFilterLoad().Filter), "3", u64s(uint64(f.MsgFilterLoad().Tweak)), "1"}
		e("blk", "manyupdates:"+itoa(n), fa[0], fa[1], fa[2], fa[3], fmtTxs(txs))
	}
}

func genC10(r *Rng, tier string, emit func(Case)) {
	e := func(op, cls string, args ...string) { emit(Case{op, cls, args}) }
	n := 250
	if tier == "thorough" {
		n = 6000
	}
	for i := 0; i < n; i++ {
		g := &genCtx{r: r}
		for k := 0; k < 1+r.Intn(3); k++ {
			g.secret = append(g.secret, r.Bytes(r.Pick(20, 33, 32, 20)))
		}
		k := 1 + r.Intn(7)
		shape := r.Intn(3)
		txs := g.genBlock(k, shape)
		fa := seededFilter(g, txs)
		e("txm", "seq", fa[0], fa[1], fa[2], fa[3], fmtTxs(txs))
		mode := r.Intn(4)
		blk := order(r, txs, mode)
		e("blk", []string{"topo", "reverse", "ctor", "random"}[mode]+":shape"+itoa(shape), fa[0], fa[1], fa[2], fa[3], fmtTxs(blk))
	}
	e("blk", "empty", "00", "1", "0", "1", "-")
	// an unloaded filter matches nothing, whatever the block
	for i := 0; i < 3; i++ {
		g := &genCtx{r: r}
		g.secret = append(g.secret, r.Bytes(20))
		e("blk", "unloaded", "nil", "0", "0", "0", fmtTxs(g.genBlock(1+r.Intn(5), r.Intn(3))))
	}
	directedBlocks(r, tier, e)
	// chains in which every transaction spends two outputs of its parent: the shape on which the
	// unrepaired scan was exponential (known_findings: fixed C08/C10 scan)
	nc := 30
	if tier == "thorough" {
		nc = 600
	}
	for i := 0; i < nc; i++ {
		g := &genCtx{r: r}
		g.secret = append(g.secret, r.Bytes(20))
		k := 3 + r.Intn(9)
		if i == 0 {
			k = 26 // 2^26 evaluations before fix e69b75a
		}
		txs := []*wire.MsgTx{}
		for j := 0; j < k; j++ {
			tx := wire.NewMsgTx(1)
			for o := 0; o < 2+r.Intn(2); o++ {
				tx.AddTxOut(wire.NewTxOut(int64(o), g.outScript(), wire.TokenData{}))
			}
			if j == 0 {
				tx.AddTxIn(wire.NewTxIn(&wire.OutPoint{Hash: *mkHash(r.Bytes(32)), Index: 0}, g.sigScript()))
			} else {
				ph := txs[j-1-r.Intn(min(j, 2))].TxHash()
				tx.AddTxIn(wire.NewTxIn(&wire.OutPoint{Hash: ph, Index: 0}, g.sigScript()))
				tx.AddTxIn(wire.NewTxIn(&wire.OutPoint{Hash: ph, Index: 1}, g.sigScript()))
			}
			txs = append(txs, tx)
		}
		fa := seededFilter(g, txs)
		if r.Bool() || i == 0 { // nearly saturated filter: everything matches
			fa[0] = hx(bytesFF(len(unhx(fa[0]))))
		}
		mode := r.Pick(1, 1, 2, 3)
		if i == 0 {
			mode = 1
		}
		e("blk", "chain2:"+[]string{"topo", "reverse", "ctor", "random"}[mode], fa[0], fa[1], fa[2], fa[3], fmtTxs(order(r, txs, mode)))
	}
}

func bitsString(r *Rng, n int, mode int) string {
	b := make([]byte, n)
	for i := range b {
		b[i] = '0'
	}
	switch mode {
	case 0: // empty
	case 1: // full
		for i := range b {
			b[i] = '1'
		}
	case 2: // singleton
		b[r.Intn(n)] = '1'
	case 3: // right edge
		b[n-1] = '1'
	case 4: // alternating
		for i := range b {
			if i%2 == 0 {
				b[i] = '1'
			}
		}
	default:
		for i := range b {
			if r.Intn(3) == 0 {
				b[i] = '1'
			}
		}
	}
	return string(b)
}

func genC11(r *Rng, tier string, emit func(Case)) {
	e := func(op, cls string, args ...string) { emit(Case{op, cls, args}) }
	exh := 7
	if tier == "thorough" {
		exh = 11
	}
	// all subsets for small n
	for n := 1; n <= exh; n++ {
		for m := 0; m < 1<<uint(n); m++ {
			b := make([]byte, n)
			for i := range b {
				b[i] = '0' + byte((m>>uint(i))&1)
			}
			e("mb", "exh"+itoa(n), itoa(n), "7", string(b), "-")
		}
	}
	// every n up to 65 with structured subsets
	for n := 1; n <= 65; n++ {
		for mode := 0; mode <= 5; mode++ {
			e("mb", "shape", itoa(n), itoa(n), bitsString(r, n, mode), "-")
		}
	}
	big := 6
	if tier == "thorough" {
		big = 80
	}
	for i := 0; i < big; i++ {
		n := 66 + r.Intn(3000)
		e("mb", "big", itoa(n), u64s(r.U64()&0xffff), bitsString(r, n, r.Intn(8)), "-")
	}
	// counts and subset sizes around byte/word boundaries of any counter an implementation might keep
	for _, n := range []int{255, 256, 257, 300, 512, 513, 1024} {
		for _, mode := range []int{1, 4} {
			e("mb", "wrap", itoa(n), itoa(n), bitsString(r, n, mode), "-")
		}
		b := []byte(bitsString(r, n, 0))
		for i := 0; i < 256 && i < n; i++ {
			b[i] = '1'
		}
		e("mb", "wrap256", itoa(n), itoa(n), string(b), "-")
	}
	// duplicated transactions (equal siblings): fidelity only
	for i := 0; i < 40; i++ {
		n := 2 + r.Intn(12)
		d := 1 + r.Intn(n-1)
		e("mb", "dups", itoa(n), "3", bitsString(r, n, 5+r.Intn(2)), itoa(d))
	}
	directedBlocks(r, tier, e)
	// filter-induced subsets through both builders (shares the C10 machinery)
	nb := 60
	if tier == "thorough" {
		nb = 1500
	}
	for i := 0; i < nb; i++ {
		g := &genCtx{r: r}
		g.secret = append(g.secret, r.Bytes(20), r.Bytes(33))
		txs := g.genBlock(1+r.Intn(12), r.Intn(3))
		fa := seededFilter(g, txs)
		e("blk", "builders", fa[0], fa[1], fa[2], fa[3], fmtTxs(order(r, txs, r.Intn(4))))
	}
}

func genC12(r *Rng, tier string, emit func(Case)) {
	e := func(op, cls string, args ...string) { emit(Case{op, cls, args}) }
	alpha := []string{"aa", "bb", "cc"}
	// exhaustive small scope: count <= 7 (quick: <= 4), hashes over a 3-letter alphabet, flag strings of <= 2 bytes
	maxN, maxH := 4, 3
	stride := 7
	if tier == "thorough" {
		maxN, maxH = 7, 4
		stride = 1
	}
	cnt := 0
	for n := 0; n <= maxN; n++ {
		for hl := 0; hl <= maxH && hl <= n+1; hl++ {
			tot := 1
			for i := 0; i < hl; i++ {
				tot *= 3
			}
			for hv := 0; hv < tot; hv++ {
				hs := []string{}
				v := hv
				for i := 0; i < hl; i++ {
					hs = append(hs, alpha[v%3])
					v /= 3
				}
				for fl := 0; fl < 256+65536; fl++ {
					cnt++
					if cnt%stride != 0 && tier != "thorough" {
						continue
					}
					if tier == "thorough" && fl >= 256 && (fl-256)%5 != 0 && n > 5 {
						continue
					}
					var flags []byte
					if fl < 256 {
						flags = []byte{byte(fl)}
					} else {
						flags = []byte{byte((fl - 256) & 0xff), byte((fl - 256) >> 8)}
					}
					if fl >= 256 && tier != "thorough" && (fl-256)%97 != 0 {
						continue
					}
					e("ex", "exh", itoa(n), joinOr(hs, ","), hx(flags))
				}
			}
		}
	}
	e("ex", "noflags", "1", "aa", "-")
	for _, cnt := range []string{"2098360", "2098361", "2098362", "4196720", "4196721"} {
		e("exlim", "limits", cnt, "aa", "00")
		e("ex", "limits", cnt, "aa", "00")
	}
	// the same small scope over the two *special* hash values (all-zero: the zero value of chainhash.Hash, what an
	// unset or exhausted branch would hold; all-ones), so that the equal-children guard is exercised with them
	cnt = 0
	for n := 0; n <= 4; n++ {
		for hl := 0; hl <= 3 && hl <= n+1; hl++ {
			for hv := 0; hv < 1<<uint(hl); hv++ {
				hs := []string{}
				for i := 0; i < hl; i++ {
					hs = append(hs, []string{"00", "ff"}[(hv>>uint(i))&1])
				}
				for fl := 0; fl < 256; fl++ {
					cnt++
					if tier != "thorough" && cnt%3 != 0 {
						continue
					}
					e("ex", "exhspecial", itoa(n), joinOr(hs, ","), hx([]byte{byte(fl)}))
				}
			}
		}
	}
	// mutations of honest proofs
	nm := 300
	if tier == "thorough" {
		nm = 8000
	}
	for i := 0; i < nm; i++ {
		n := 1 + r.Intn(40)
		blk := wire.NewMsgBlock(&wire.BlockHeader{})
		set := []*chainhash.Hash{}
		for j := 0; j < n; j++ {
			tx := synthTx(uint32(i), j)
			blk.AddTransaction(tx)
			if r.Intn(3) == 0 {
				h := tx.TxHash()
				set = append(set, &h)
			}
		}
		m, _ := merkleblock.NewMerkleBlockWithTxnSet(bchutil.NewBlock(blk), set)
		hashes := []string{}
		for _, h := range m.Hashes {
			hashes = append(hashes, hx(h[:]))
		}
		flags := append([]byte{}, m.Flags...)
		cnt := uint64(m.Transactions)
		cls := "honest"
		switch r.Intn(12) {
		case 0:
			flags[r.Intn(len(flags))] ^= 1 << uint(r.Intn(8))
			cls = "bitflip"
		case 1:
			if len(hashes) > 0 {
				k := r.Intn(len(hashes))
				hashes = append(hashes[:k], hashes[k+1:]...)
			}
			cls = "drophash"
		case 2:
			if len(hashes) > 0 {
				k := r.Intn(len(hashes))
				hashes = append(hashes[:k+1], hashes[k:]...)
			}
			cls = "duphash"
		case 3:
			if len(hashes) > 1 {
				k := r.Intn(len(hashes) - 1)
				hashes[k], hashes[k+1] = hashes[k+1], hashes[k]
			}
			cls = "swaphash"
		case 4:
			cnt = uint64(r.Pick(0, int(cnt)+1, int(cnt)-1, int(cnt)*2, 2098360, 2098361, 4294967295))
			cls = "count"
		case 5:
			flags = flags[:len(flags)-1]
			cls = "truncflags"
		case 6:
			flags = append(flags, 0)
			cls = "extzero"
		case 7:
			flags = append(flags, byte(1+r.Intn(255)))
			cls = "extnonzero"
		case 8:
			hashes = append(hashes, hx(r.Bytes(32)))
			cls = "extrahash"
		}
		e("ex", cls, u64s(cnt), joinOr(hashes, ","), hx(flags))
	}
}
