package main

import (
	"bytes"
	"strings"
	"unsafe"

	"github.com/gcash/bchd/chaincfg/chainhash"
	"github.com/gcash/bchd/wire"
	"github.com/gcash/bchutil"
)

func init() { props["C16"] = &Prop{Gen: genC16, Exec: execC16} }

type ptrIDs struct{ m map[uintptr]int }

func (p *ptrIDs) id(ptr unsafe.Pointer) string {
	if p.m == nil {
		p.m = map[uintptr]int{}
	}
	k := uintptr(ptr)
	if v, ok := p.m[k]; ok {
		return "p" + itoa(v)
	}
	p.m[k] = len(p.m)
	return "p" + itoa(len(p.m)-1)
}

func synthBlock(ntx int, salt uint32, tokens bool) *wire.MsgBlock {
	blk := wire.NewMsgBlock(&wire.BlockHeader{Nonce: salt})
	for i := 0; i < ntx; i++ {
		tx := synthTx(salt, i)
		if tokens && i%2 == 1 {
			var cat [32]byte
			cat[0] = byte(i)
			amt := uint64(1000 + i)
			td, err := wire.NewTokenData(cat, &amt, nil, nil)
			if err == nil {
				tx.TxOut[0].TokenData = *td
			}
		}
		for j := 0; j < i%3; j++ {
			tx.AddTxOut(wire.NewTxOut(int64(j), []byte{0x6a, byte(j)}, wire.TokenData{}))
		}
		blk.AddTransaction(tx)
	}
	return blk
}

func execC16(c Case) string {
	a := c.Args
	switch c.Op {
	case "blk": // blk <ctor> <ntx> <salt> <tokens> <trailing> <script>
		ntx, salt := atoi(a[1]), uint32(atou(a[2]))
		msg := synthBlock(ntx, salt, a[3] == "1")
		if a[0] == "raw" {
			// the block arrives as raw bytes (a[4]) that need not be what the wire package would write for the message
			// it parses them into; the reference values (EXT) are those of the parsed message
			msg = &wire.MsgBlock{}
			must(msg.Deserialize(bytes.NewReader(unhx(a[4]))))
		}
		var buf bytes.Buffer
		must(msg.Serialize(&buf))
		ser := append([]byte{}, buf.Bytes()...)
		bh := msg.BlockHash()
		txh := []string{}
		for _, t := range msg.Transactions {
			h := t.TxHash()
			txh = append(txh, hx(h[:]))
		}
		var m2 wire.MsgBlock
		locSrc := ser
		if a[0] == "raw" {
			locSrc = unhx(a[4]) // TxLoc parses the bytes the block holds: for this constructor the raw input
		}
		locs, err := m2.DeserializeTxLoc(bytes.NewBuffer(locSrc))
		must(err)
		ls := []string{}
		for _, l := range locs {
			ls = append(ls, itoa(l.TxStart)+"+"+itoa(l.TxLen))
		}
		ext := hx(ser) + " " + hx(bh[:]) + " " + joinOr(txh, ",") + " " + joinOr(ls, ",")
		trailing := unhx(a[4])
		input := append(append([]byte{}, ser...), trailing...)
		var b *bchutil.Block
		switch a[0] {
		case "msg":
			b = bchutil.NewBlock(msg)
		case "bytes":
			b, err = bchutil.NewBlockFromBytes(input)
			must(err)
		case "reader":
			b, err = bchutil.NewBlockFromReader(bytes.NewReader(input))
			must(err)
		case "buffer": // the caller reads from a bytes.Buffer and keeps using it (more data arrives, it is reset and refilled)
			bb := bytes.NewBuffer(append(append(make([]byte, 0, len(input)+64), input...), 0xde, 0xad))
			b, err = bchutil.NewBlockFromReader(bb)
			must(err)
			bb.Write(bytes.Repeat([]byte{0xee}, 200))
			bb.Reset()
			bb.Write(bytes.Repeat([]byte{0xee}, len(input)+32))
		case "msgbytes":
			b = bchutil.NewBlockFromBlockAndBytes(msg, ser)
		case "msgbytesempty": // the caller hands over an EMPTY but non-nil slice: nothing is cached, Bytes() computes
			b = bchutil.NewBlockFromBlockAndBytes(msg, make([]byte, 0, 16))
		case "msgbytesbad": // the caller hands over bytes that are NOT the serialisation of the message (a[4])
			b = bchutil.NewBlockFromBlockAndBytes(msg, trailing)
		case "raw":
			b, err = bchutil.NewBlockFromBytes(trailing)
			must(err)
			msg = b.MsgBlock() // identity checks of the wrappers refer to the block's own message
		default:
			panic("harness: ctor")
		}
		// the height is independent bookkeeping: unknown at first, then whatever was set, untouched by the accessors
		h0 := b.Height()
		b.SetHeight(int32(salt) + 7)
		ids := &ptrIDs{}
		res := []string{}
		txTok := func(t *bchutil.Tx) string {
			h := t.MsgTx().TxHash() // not t.Hash(): that would populate the cache under test
			own := ""
			if i := t.Index(); i < 0 || i >= len(b.MsgBlock().Transactions) || b.MsgBlock().Transactions[i] != t.MsgTx() {
				own = ":foreign-msgtx" // the wrapper must wrap the block message's own transaction, not a copy
			}
			return hx(h[:]) + ":" + itoa(t.Index()) + ":" + ids.id(unsafe.Pointer(t)) + own
		}
		for _, call := range splitOr(a[5], ",") {
			switch call[0] {
			case 'T':
				t, err := b.Tx(atoi(call[1:]))
				if _, ok := err.(bchutil.OutOfRangeError); ok && t != nil {
					res = append(res, "oor-with-a-non-nil-tx")
				} else if ok {
					res = append(res, "oor")
				} else if err != nil {
					res = append(res, "err")
				} else {
					res = append(res, "tx:"+txTok(t))
				}
			case 'A':
				ts := []string{}
				for _, t := range b.Transactions() {
					ts = append(ts, txTok(t))
				}
				res = append(res, "txs:"+joinOr(ts, "/"))
			case 'H':
				h, err := b.TxHash(atoi(call[1:]))
				if _, ok := err.(bchutil.OutOfRangeError); ok && h != nil {
					res = append(res, "oor-with-a-non-nil-hash")
				} else if ok {
					res = append(res, "oor")
				} else if err != nil {
					res = append(res, "err")
				} else {
					res = append(res, "hash:"+hx(h[:])+":"+ids.id(unsafe.Pointer(h)))
				}
			case 'B':
				h := b.Hash()
				res = append(res, "hash:"+hx(h[:])+":"+ids.id(unsafe.Pointer(h)))
			case 'S':
				by, err := b.Bytes()
				if err != nil {
					res = append(res, "err")
				} else {
					d := chainhash.DoubleHashB(by)
					res = append(res, "bytes:"+itoa(len(by))+":"+hx(d[:8])+":"+ids.id(unsafe.Pointer(&by[0])))
				}
			case 'L':
				l, err := b.TxLoc()
				if err != nil {
					res = append(res, "err")
				} else {
					t := []string{}
					for _, x := range l {
						t = append(t, itoa(x.TxStart)+"+"+itoa(x.TxLen))
					}
					res = append(res, "locs:"+joinOr(t, "/"))
				}
			}
		}
		// re-parse from the block's own bytes
		re := "-"
		if by, err := b.Bytes(); err == nil {
			if b2, err := bchutil.NewBlockFromBytes(by); err == nil {
				t := []string{}
				for _, x := range b2.Transactions() {
					t = append(t, hx(x.Hash()[:]))
				}
				by2, _ := b2.Bytes()
				re = hx(b2.Hash()[:]) + "/" + joinOr(t, ",") + "/" + b2s(bytes.Equal(by, by2))
			} else {
				re = "err"
			}
		}
		ht := "height-ok"
		if h0 != bchutil.BlockHeightUnknown || b.Height() != int32(salt)+7 {
			ht = "height:" + itoa(int(h0)) + "," + itoa(int(b.Height()))
		}
		return "EXT " + ext + " RES " + joinOr(res, " ") + " RE " + re + " " + ht
	case "blkbig": // blkbig <ctor> <ntx> <salt> <first>: a block too large to transcribe; digests of the accessors
		ntx, salt := atoi(a[1]), uint32(atou(a[2]))
		msg := synthBlock(ntx, salt, false)
		var buf bytes.Buffer
		must(msg.Serialize(&buf))
		ser := append([]byte{}, buf.Bytes()...)
		var m2 wire.MsgBlock
		locs, err := m2.DeserializeTxLoc(bytes.NewBuffer(ser))
		must(err)
		locDigest := func(l []wire.TxLoc) string {
			var sb strings.Builder
			for _, x := range l {
				sb.WriteString(itoa(x.TxStart) + "+" + itoa(x.TxLen) + ",")
			}
			return itoa(len(l)) + ":" + hx(chainhash.DoubleHashB([]byte(sb.String()))[:8])
		}
		byDigest := func(b []byte) string { return itoa(len(b)) + ":" + hx(chainhash.DoubleHashB(b)[:8]) }
		last := msg.Transactions[ntx-1].TxHash()
		ext := locDigest(locs) + " " + byDigest(ser) + " " + hx(last[:])
		var b *bchutil.Block
		switch a[0] {
		case "msg":
			b = bchutil.NewBlock(msg)
		case "bytes":
			b, err = bchutil.NewBlockFromBytes(ser)
			must(err)
		case "reader":
			b, err = bchutil.NewBlockFromReader(bytes.NewReader(ser))
			must(err)
		default:
			panic("harness: ctor")
		}
		var ld, bd string
		obs := func(which byte) {
			if which == 'L' {
				l, err := b.TxLoc()
				ld = "err"
				if err == nil {
					ld = locDigest(l)
				}
			} else {
				by, err := b.Bytes()
				bd = "err"
				if err == nil {
					bd = byDigest(by)
				}
			}
		}
		switch a[3] {
		case "L":
			obs('L')
			obs('S')
		case "A": // Transactions() is the first accessor: it wraps ALL transactions, however many
			if n := len(b.Transactions()); n != ntx {
				return "EXT " + ext + " RES Transactions()-returned-" + itoa(n) + "-of-" + itoa(ntx)
			}
			obs('S')
			obs('L')
		default:
			obs('S')
			obs('L')
		}
		lt := "err"
		if t, err := b.Tx(ntx - 1); err == nil {
			lt = hx(t.Hash()[:]) + ":" + itoa(t.Index())
		}
		oor := "no-error"
		if _, err := b.Tx(ntx); err != nil {
			oor = "oor"
		}
		return "EXT " + ext + " RES " + ld + " " + bd + " " + lt + " " + oor
	case "txw": // txw <salt> <trailing>
		mtx := synthTx(uint32(atou(a[0])), 1)
		var buf bytes.Buffer
		must(mtx.Serialize(&buf))
		want := mtx.TxHash()
		t, err := bchutil.NewTxFromBytes(append(buf.Bytes(), unhx(a[1])...))
		if err != nil {
			return "err"
		}
		h1, h2 := t.Hash(), t.Hash()
		t2 := bchutil.NewTx(mtx)
		base := "EXT " + hx(want[:]) + " RES " + hx(h1[:]) + " " + b2s(h1 == h2) + " " + itoa(t.Index()) + " " + hx(t2.Hash()[:]) + " " + itoa(t2.Index())
		// index bookkeeping is independent of the hash memo and of the wrapped message (Model/TxCache.lean)
		m0 := t2.MsgTx()
		t2.SetIndex(7)
		i1 := t2.Index()
		h3 := t2.Hash()
		t2.SetIndex(bchutil.TxIndexUnknown)
		t3, err := bchutil.NewTxFromReader(bytes.NewReader(append(buf.Bytes(), unhx(a[1])...)))
		if err != nil {
			return base + " readererr"
		}
		t3.SetIndex(3)
		return base + " " + itoa(i1) + " " + itoa(t2.Index()) + " " + b2s(h3 == t2.Hash() && *h3 == want) + " " + b2s(t2.MsgTx() == m0 && m0 == mtx) + " " +
			itoa(t3.Index()) + " " + b2s(*t3.Hash() == want)
	}
	panic("harness: op")
}

func genC16(r *Rng, tier string, emit func(Case)) {
	e := func(op, cls string, args ...string) { emit(Case{op, cls, args}) }
	// transaction counts around the CompactSize boundaries (1 -> 3 -> 5 bytes), TxLoc before and after Bytes
	big := []int{252, 253, 65535, 65536}
	if tier == "thorough" {
		big = []int{1, 252, 253, 254, 65535, 65536, 65537, 100000}
	}
	for _, ntx := range big {
		for _, ctor := range []string{"msg", "reader", "bytes"} {
			for _, first := range []string{"L", "S", "A"} {
				e("blkbig", "count:"+itoa(ntx), ctor, itoa(ntx), u64s(r.U64()&0xffff), first)
			}
		}
	}
	n := 200
	if tier == "thorough" {
		n = 5000
	}
	// message + bytes where the bytes belong to another block: the documented contract is that the caller vouches for them
	for i := 0; i < 2; i++ {
		ntx := 1 + r.Intn(3)
		salt := r.U64() & 0xffff
		var ob bytes.Buffer
		must(synthBlock(ntx+1, uint32(salt)+1, false).Serialize(&ob))
		e("blk", "msgbytesbad", "msgbytesbad", itoa(ntx), u64s(salt), "0", hx(ob.Bytes()), "S,B,T0,H0,S")
	}
	// raw block bytes written by hand: one transaction whose output "script" field starts with the CashToken prefix
	// byte 0xef. Category all-zero (the wire package parses it as token data and does NOT write it back), category
	// non-zero (round-trips), and 0xef followed by something that is no token prefix (kept as a plain script)
	for _, cat := range []byte{0x00, 0x01, 0xff} {
		for _, tail := range [][]byte{{0x10, 0x01, 0x51}, {0x10, 0xfd, 0x00, 0x01, 0x6a}, {0x51}} {
			script := append([]byte{0xef}, bytes.Repeat([]byte{cat}, 32)...)
			script = append(script, tail...)
			var raw bytes.Buffer
			must((&wire.BlockHeader{Nonce: uint32(cat)}).Serialize(&raw))
			raw.WriteByte(1)                           // one transaction
			raw.Write([]byte{1, 0, 0, 0, 1})           // version, one input
			raw.Write(make([]byte, 32))                // previous txid
			raw.Write([]byte{0xff, 0xff, 0xff, 0xff, 1, 0x51, 0xff, 0xff, 0xff, 0xff}) // index, script, sequence
			raw.WriteByte(1)                           // one output
			raw.Write(make([]byte, 8))                 // value
			raw.WriteByte(byte(len(script)))
			raw.Write(script)
			raw.Write([]byte{0, 0, 0, 0}) // lock time
			var probe wire.MsgBlock
			if probe.Deserialize(bytes.NewReader(raw.Bytes())) != nil {
				continue // not a block for the wire package: nothing to wrap
			}
			e("blk", "rawtoken", "raw", "1", "0", "0", hx(raw.Bytes()), "S,L,B,T0,H0,S,A,L")
		}
	}
	ctors := []string{"msg", "bytes", "reader", "msgbytes", "msgbytesempty", "buffer"}
	for i := 0; i < n; i++ {
		ntx := r.Pick(0, 1, 2, 3, 5, 8, 40)
		ctor := ctors[r.Intn(len(ctors))]
		trailing := "-"
		if (ctor == "bytes" || ctor == "reader" || ctor == "buffer") && r.Bool() {
			trailing = hx(r.Bytes(1 + r.Intn(3)))
		}
		calls := []string{}
		for j := 0; j < 1+r.Intn(30); j++ {
			idx := r.Pick(-1, 0, ntx-1, ntx, 1<<31-1, r.Intn(ntx+1), r.Intn(ntx+1), r.Intn(ntx+1), r.Intn(ntx+1))
			if r.Intn(12) == 0 {
				// indices that alias a valid one when truncated to 32 (or 31, 16, 8) bits
				idx = r.Pick(1<<32, 1<<32+r.Intn(ntx+1), -(1 << 32), -(1<<32)+r.Intn(ntx+1), 1<<63-1, -(1 << 63), 1<<31+r.Intn(ntx+1), 65536+r.Intn(ntx+1), 256+r.Intn(ntx+1))
			}
			switch r.Intn(8) {
			case 0, 1:
				calls = append(calls, "T"+itoa(idx))
			case 2:
				calls = append(calls, "A")
			case 3, 4:
				calls = append(calls, "H"+itoa(idx))
			case 5:
				calls = append(calls, "B")
			case 6:
				calls = append(calls, "S")
			case 7:
				calls = append(calls, "L")
			}
		}
		e("blk", ctor, ctor, itoa(ntx), u64s(r.U64()&0xffff), b2s(r.Bool()), trailing, strings.Join(calls, ","))
		if i%10 == 0 {
			e("txw", "tx", u64s(r.U64()&0xffff), hx(r.Bytes(r.Intn(3))))
		}
	}
}
