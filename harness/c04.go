package main

import (
	"bytes"
	"encoding/binary"
	"strings"

	"github.com/gcash/bchd/chaincfg"
	"github.com/gcash/bchd/chaincfg/chainhash"
	"github.com/gcash/bchutil/base58"
	"github.com/gcash/bchutil/hdkeychain"
)

func init() {
	props["C04"] = &Prop{Gen: genC04, Exec: execHD}
	props["C05"] = &Prop{Gen: genC05, Exec: execHD}
}

func hdErr(err error) string {
	switch err {
	case hdkeychain.ErrDeriveHardFromPublic:
		return "hardFromPublic"
	case hdkeychain.ErrDeriveBeyondMaxDepth:
		return "beyondMaxDepth"
	case hdkeychain.ErrNotPrivExtKey:
		return "notPriv"
	case hdkeychain.ErrInvalidChild:
		return "invalidChild"
	case hdkeychain.ErrUnusableSeed:
		return "unusableSeed"
	case hdkeychain.ErrInvalidSeedLen:
		return "seedLen"
	case hdkeychain.ErrBadChecksum:
		return "badChecksum"
	case hdkeychain.ErrInvalidKeyLen:
		return "keyLen"
	}
	return "other"
}

// childNumOf: the child number of a key, read from its serialisation (bytes 9..13 of the Base58Check payload) - a
// black-box observation, so that these ops do not depend on a white-box hook
func childNumOf(k *hdkeychain.ExtendedKey) uint32 {
	d := base58.Decode(k.String())
	if len(d) < 13 {
		return 0
	}
	return binary.BigEndian.Uint32(d[9:13])
}

// privScalarOf: the 32-byte private scalar as serialised in the key's string (bytes 46..78 of the payload); chosen from
// the serialisation, not from the key's internal buffer, so that the selection of "leading zero" cases does not depend
// on how the code under test stores the scalar
func privScalarOf(k *hdkeychain.ExtendedKey) []byte {
	d := base58.Decode(k.String())
	if len(d) < 78 {
		return make([]byte, 32)
	}
	return d[46:78]
}

func hdKeyObs(net *chaincfg.Params, k *hdkeychain.ExtendedKey) string {
	pub := "err"
	if p, err := k.Neuter(); err == nil {
		pub = hs(p.String())
	}
	addr := "err"
	if a, err := k.Address(net); err == nil {
		addr = hs(a.EncodeAddress())
	}
	childNum := childNumOf(k)
	return strings.Join([]string{hs(k.String()), pub, addr, itoa(int(k.Depth())), u64s(uint64(k.ParentFingerprint())), u64s(uint64(childNum)), b2s(k.IsPrivate())}, ",")
}

// newMasterCallerBuffer calls NewMaster the way a caller with a reusable buffer does: the seed is the front of a larger
// buffer (spare capacity 256 bytes behind it); afterwards the whole buffer must be what it was (NewMaster writes to no
// memory of its caller), and it is then overwritten - the key must not live in it.
func newMasterCallerBuffer(seed []byte, net *chaincfg.Params) (*hdkeychain.ExtendedKey, error, bool) {
	buf := make([]byte, len(seed)+256)
	copy(buf, seed)
	for i := len(seed); i < len(buf); i++ {
		buf[i] = 0xa5
	}
	before := append([]byte{}, buf...)
	m, err := hdkeychain.NewMaster(buf[:len(seed)], net)
	written := !bytes.Equal(before, buf)
	for i := range buf {
		buf[i] = 0xee
	}
	return m, err, written
}

func hdWalk(net *chaincfg.Params, seed []byte, path []string) (*hdkeychain.ExtendedKey, string) {
	m, err, written := newMasterCallerBuffer(seed, net)
	if written {
		return nil, "err:NewMaster wrote to the caller's seed buffer"
	}
	if err != nil {
		return nil, "err:" + hdErr(err)
	}
	obs := []string{hdKeyObs(net, m)}
	k := m
	for _, t := range path {
		if t == "N" {
			p, err := k.Neuter()
			if err != nil {
				obs = append(obs, "err:"+hdErr(err))
				return nil, strings.Join(obs, ";")
			}
			k = p
			obs = append(obs, hdKeyObs(net, k))
			continue
		}
		i := uint32(atou(t))
		c, err := k.Child(i)
		if err != nil {
			obs = append(obs, "err:"+hdErr(err))
			return nil, strings.Join(obs, ";")
		}
		via := "-"
		if i < hdkeychain.HardenedKeyStart {
			via = "err"
			if pk, err := k.Neuter(); err == nil {
				if pc, err := pk.Child(i); err == nil {
					via = hs(pc.String())
				} else {
					via = "err:" + hdErr(err)
				}
			}
		}
		obs = append(obs, hdKeyObs(net, c)+","+via)
		k = c
	}
	return k, strings.Join(obs, ";")
}

func childStr(k *hdkeychain.ExtendedKey, i uint32) string {
	c, err := k.Child(i)
	if err != nil {
		return "err:" + hdErr(err)
	}
	return hs(c.String())
}

func xkeyObs(k *hdkeychain.ExtendedKey, err error) string {
	if err != nil {
		return "err:" + hdErr(err)
	}
	childNum := childNumOf(k)
	return strings.Join([]string{"ok", hs(k.String()), b2s(k.IsPrivate()), itoa(int(k.Depth())), u64s(uint64(k.ParentFingerprint())), u64s(uint64(childNum)), childStr(k, 0), childStr(k, hdkeychain.HardenedKeyStart)}, ",")
}

func execHD(c Case) string {
	a := c.Args
	switch c.Op {
	case "hd":
		_, obs := hdWalk(netIdx(a[0]), unhx(a[1]), splitOr(a[2], ","))
		return obs
	case "xkey":
		return xkeyObs(hdkeychain.NewKeyFromString(string(unhx(a[0]))))
	case "seedgen": // seedgen <length>: GenerateSeed refuses lengths outside 16..64 and returns exactly that many bytes
		sd, err := hdkeychain.GenerateSeed(uint8(atoi(a[0])))
		if err == hdkeychain.ErrInvalidSeedLen {
			return "err:seedlen"
		} else if err != nil {
			return "err:other"
		}
		sd2, _ := hdkeychain.GenerateSeed(uint8(atoi(a[0])))
		return "ok:" + itoa(len(sd)) + ":" + b2s(!bytes.Equal(sd, sd2))
	case "xnew": // xnew <version> <key> <chaincode> <parentFP> <depth> <childnum> <private>: the raw constructor
		keyBuf, ccBuf, fpBuf := unhx(a[1]), unhx(a[2]), unhx(a[3])
		k := hdkeychain.NewExtendedKey(unhx(a[0]), keyBuf, ccBuf, fpBuf, uint8(atoi(a[4])), uint32(atou(a[5])), a[6] == "1")
		str := k.String()
		nb := ""
		for _, n := range nets {
			nb += b2s(k.IsForNet(n))
		}
		obs := hs(str) + " " + nb + " " + b2s(k.IsPrivate()) + " " + itoa(int(k.Depth())) + " " + u64s(uint64(k.ParentFingerprint())) + " " + xkeyObs(hdkeychain.NewKeyFromString(str))
		// Zero: every key, whatever its depth, leaves no key material - the fingerprint reads 0 and the buffers the raw
		// constructor was handed (it keeps the caller's slices) are wiped
		k.Zero()
		wiped := true
		for _, b := range [][]byte{keyBuf, ccBuf, fpBuf} {
			for _, c := range b {
				wiped = wiped && c == 0
			}
		}
		return obs + " Z:" + u64s(uint64(k.ParentFingerprint())) + ":" + b2s(wiped)
	case "xrt": // derive, serialise, parse back
		k, obs := hdWalk(netIdx(a[0]), unhx(a[1]), splitOr(a[2], ","))
		if k == nil {
			return "noderive:" + obs[strings.LastIndex(obs, ";")+1:]
		}
		s := k.String()
		return hs(s) + " " + childStr(k, 0) + " " + childStr(k, hdkeychain.HardenedKeyStart) + " " + xkeyObs(hdkeychain.NewKeyFromString(s))
	}
	panic("harness: op")
}

func genPath(r *Rng, maxLen int) []string {
	n := r.Intn(maxLen + 1)
	p := []string{}
	neutered := false
	for i := 0; i < n; i++ {
		if !neutered && r.Intn(12) == 0 {
			p = append(p, "N")
			neutered = true
			continue
		}
		var v uint64
		switch r.Intn(8) {
		case 0:
			v = 0
		case 1:
			v = 1
		case 2:
			v = 1<<31 - 1
		case 3:
			v = 1 << 31
		case 4:
			v = 1<<31 + 1
		case 5:
			v = 1<<32 - 1
		default:
			v = r.U64() & 0xffffffff
		}
		if neutered && r.Intn(10) != 0 {
			v &= 0x7fffffff
		}
		p = append(p, u64s(v))
	}
	return p
}

func genSeed(r *Rng) []byte {
	l := 16 + r.Intn(49)
	if r.Intn(10) == 0 {
		l = r.Pick(0, 1, 15, 16, 64, 65, 80)
	}
	return r.Bytes(l)
}

func genC04(r *Rng, tier string, emit func(Case)) {
	e := func(op, cls string, args ...string) { emit(Case{op, cls, args}) }
	n := 120
	if tier == "thorough" {
		n = 2500
	}
	// BIP32 test vector 1 and 2 (corpus-like; fixed)
	e("hd", "bip32tv1", "0", "000102030405060708090a0b0c0d0e0f", "2147483648,1,2147483650,2,1000000000")
	e("hd", "bip32tv2", "0", "fffcf9f6f3f0edeae7e4e1dedbd8d5d2cfccc9c6c3c0bdbab7b4b1aeaba8a5a29f9c999693908d8a8784817e7b7875726f6c696663605d5a5754514e4b484542", "0,4294967295,1,4294967294,2")
	e("hd", "bip32tv3", "0", "4b381541583be4423346c643850da4b320e46a87ae3d2a4e6da11eba819cd4acba45d239319ac14f863b8d5ab5a0d0c64d2e8a1e7d1457df2e5a3c51c73235be", "2147483648")
	for i := 0; i < n; i++ {
		ni := r.Intn(len(nets))
		e("hd", "rand", itoa(ni), hx(genSeed(r)), joinOr(genPath(r, 6), ","))
	}
	// structured seeds: one repeated byte value, ascending bytes (BIP32 defines a master key for every 128..512-bit seed)
	for _, l := range []int{16, 17, 32, 64} {
		for _, v := range []byte{0x00, 0x01, 0x80, 0xff} {
			e("hd", "seedrep", itoa(l%len(nets)), hx(bytes.Repeat([]byte{v}, l)), "0,2147483648")
		}
		asc := make([]byte, l)
		for j := range asc {
			asc[j] = byte(j)
		}
		e("hd", "seedasc", "0", hx(asc), "1")
	}
	// seed lengths far outside the legal range, around every multiple of 256 (a length squeezed into a byte wraps)
	for _, l := range []int{0, 1, 15, 16, 64, 65, 100, 255, 256, 257, 271, 272, 288, 320, 321, 511, 512, 528, 544, 1040, 65552} {
		e("hd", "seedlen", "0", hx(r.Bytes(l)), "-")
	}
	// leading-zero child scalars: derive siblings until the serialised private key has a 0 first key byte
	found := 0
	want := 2
	if tier == "thorough" {
		want = 12
	}
	for tries := 0; tries < 40 && found < want; tries++ {
		seed := r.Bytes(32)
		m, err := hdkeychain.NewMaster(seed, nets[0])
		if err != nil {
			continue
		}
		for i := uint32(0); i < 600; i++ {
			idx := i
			if r.Bool() {
				idx |= 1 << 31
			}
			c, err := m.Child(idx)
			if err != nil {
				continue
			}
			key := privScalarOf(c)
			if key[0] == 0 {
				e("hd", "leadingzero", "0", hx(seed), u64s(uint64(idx))+",2147483648")
				e("hd", "leadingzero", "0", hx(seed), u64s(uint64(idx))+",7,N,3")
				found++
				break
			}
		}
	}
	// two leading zero bytes in a derived private key (1 in 65536), then hardened and normal grandchildren
	if tier == "thorough" {
		seed := r.Bytes(32)
		if m, err := hdkeychain.NewMaster(seed, nets[0]); err == nil {
			for i := uint32(0); i < 400000; i++ {
				idx := i | 1<<31
				c, err := m.Child(idx)
				if err != nil {
					continue
				}
				key := privScalarOf(c)
				if key[0] == 0 && key[1] == 0 {
					e("hd", "leadingzero2", "0", hx(seed), u64s(uint64(idx))+",2147483648")
					e("hd", "leadingzero2", "0", hx(seed), u64s(uint64(idx))+",3,N,1")
					break
				}
			}
		}
	}
	// deep chains up to the depth limit
	deep := []string{}
	for i := 0; i < 256; i++ {
		deep = append(deep, itoa(i%3))
	}
	if tier == "thorough" {
		e("hd", "depth256", "0", hx(r.Bytes(32)), strings.Join(deep, ","))
		e("hd", "depth255N", "1", hx(r.Bytes(16)), strings.Join(deep[:255], ",")+",N,1")
	} else {
		e("hd", "depth256", "0", hx(r.Bytes(32)), strings.Join(deep, ","))
		e("hd", "depth255N", "1", hx(r.Bytes(16)), strings.Join(deep[:255], ",")+",N,1")
	}
}

func genC05(r *Rng, tier string, emit func(Case)) {
	e := func(op, cls string, args ...string) { emit(Case{op, cls, args}) }
	n := 60
	if tier == "thorough" {
		n = 1200
	}
	reck := func(p []byte) string {
		ck := chainhash.DoubleHashB(p)[:4]
		return base58.Encode(append(append([]byte{}, p...), ck...))
	}
	for _, l := range []int{0, 1, 15, 16, 17, 32, 63, 64, 65, 128, 255} {
		e("seedgen", "len", itoa(l))
	}
	// the raw constructor NewExtendedKey: private scalars given WITHOUT their leading zero bytes (31, 30, 1 bytes; String
	// must left-pad them to 32), full-length scalars, compressed public keys; registered and unregistered versions
	for i := 0; i < n/2+4; i++ {
		net := nets[r.Intn(len(nets))]
		priv := r.Intn(3) != 0
		ver := net.HDPrivateKeyID[:]
		if !priv {
			ver = net.HDPublicKeyID[:]
		}
		if r.Intn(8) == 0 {
			ver = r.Bytes(4)
		}
		if r.Intn(3) == 0 {
			// version bytes that start with zero bytes: the serialisation then starts with '1' characters and is
			// shorter than the usual 111 / 112 characters
			ver = [][]byte{{0, 0, 0, 0}, {0, 0, 1, 0x23}, {0, 0, 0, 7}, {0, 1, 2, 3}, {0xff, 0xff, 0xff, 0xff}}[r.Intn(5)]
		}
		var key []byte
		if priv {
			key = r.Bytes(32)
			for z := r.Pick(0, 0, 1, 1, 2, 31); z > 0; z-- {
				key = key[1:] // a scalar below 2^(8*len): what big.Int.Bytes() yields
			}
			if key[0] == 0 {
				key[0] = 1
			}
		} else {
			key = randPubKey(r).SerializeCompressed()
		}
		e("xnew", []string{"pub", "priv"}[map[bool]int{false: 0, true: 1}[priv]]+":len"+itoa(len(key)), hx(ver), hx(key), hx(r.Bytes(32)), hx(r.Bytes(4)),
			itoa(r.Pick(0, 1, 2, 255)), u64s(uint64(uint32(r.U64()))), b2s(priv))
	}
	for i := 0; i < n; i++ {
		ni := r.Intn(len(nets))
		seed := r.Bytes(16 + r.Intn(49))
		path := genPath(r, 4)
		e("xrt", "derived", itoa(ni), hx(seed), joinOr(path, ","))
		k, _ := hdWalk(nets[ni], seed, path)
		if k == nil {
			continue
		}
		s := k.String()
		dec := base58.Decode(s)
		payload := dec[:78]
		// valid
		e("xkey", "valid", hs(s))
		// single-bit corruption with recomputed checksum
		for j := 0; j < 4; j++ {
			p := append([]byte{}, payload...)
			bit := r.Intn(78 * 8)
			if j == 0 {
				bit = 45*8 + r.Intn(8) // the private/public discriminator byte
			}
			p[bit/8] ^= 1 << uint(bit%8)
			e("xkey", "bitflip-reck", hs(reck(p)))
		}
		// single-byte corruption with recomputed checksum
		p := append([]byte{}, payload...)
		p[r.Intn(78)] = byte(r.Intn(256))
		e("xkey", "byte-reck", hs(reck(p)))
		// without recomputation: a checksum bit or payload bit flipped
		d2 := append([]byte{}, dec...)
		bit := r.Intn(82 * 8)
		d2[bit/8] ^= 1 << uint(bit%8)
		e("xkey", "bitflip", hs(base58.Encode(d2)))
		// every single bit of the four checksum bytes, once per run
		if i < 2 {
			for b := 78 * 8; b < 82*8; b++ {
				d3 := append([]byte{}, dec...)
				d3[b/8] ^= 1 << uint(b%8)
				e("xkey", "ckbit", hs(base58.Encode(d3)))
			}
		}
		// scalar edge values (private form)
		p = append([]byte{}, payload...)
		p[45] = 0
		sc := make([]byte, 32)
		switch r.Intn(6) {
		case 0:
		case 1:
			sc[31] = 1
		case 2:
			copy(sc, secpN)
			sc[31]--
		case 3:
			copy(sc, secpN)
		case 4:
			copy(sc, secpN)
			sc[31]++
		case 5:
			sc = bytesFF(32)
		}
		copy(p[46:], sc)
		e("xkey", "scalar-edge", hs(reck(p)))
		// public form with bad points
		p = append([]byte{}, payload...)
		p[45] = byte(r.Pick(2, 3, 4, 5, 1, 6, 0xff))
		switch r.Intn(4) {
		case 0:
			copy(p[46:], bytesFF(32)) // x >= p
		case 1:
			copy(p[46:], r.Bytes(32)) // random x: on curve with prob 1/2
		case 2:
			copy(p[46:], make([]byte, 32))
		}
		e("xkey", "point-edge", hs(reck(p)))
		// wrong lengths 77..83 with valid checksum
		ln := 73 + r.Intn(11)
		pp := append(append([]byte{}, payload...), r.Bytes(8)...)[:ln]
		e("xkey", "length", hs(reck(pp)))
		// leading '1' variants
		e("xkey", "lead1", hs("1"+s))
		e("xkey", "utf8", hs(utf8Variant(r, s)))
		zp := append([]byte{}, payload...)
		zp[0] = 0
		e("xkey", "zero-version-byte", hs(reck(zp)))
		e("xkey", "raw", hx(r.Bytes(r.Intn(120))))
	}
}
