package main

import (
	"bytes"
	"strings"

	"github.com/gcash/bchutil/base58"
	"github.com/gcash/bchutil/bech32"
)

const b58alpha = "123456789ABCDEFGHJKLMNPQRSTUVWXYZabcdefghijkmnopqrstuvwxyz"
const bechCharset = "qpzry9x8gf2tvdw0s3jn54khce6mua7l"

// error values of bech32 are unnamed fmt.Errorf strings: which message is returned is not part of any property, so
// observations only say "err" (message texts are never compared)
func cbObs(b []byte, err error) string {
	if err != nil {
		return "err"
	}
	return "ok:" + hx(b)
}

func bechErr(err error) string { return "err" }

// withSpare returns a copy of b with the given spare capacity filled with canary bytes.
func withSpare(b []byte, spare int) []byte {
	buf := make([]byte, len(b)+spare)
	copy(buf, b)
	for i := len(b); i < len(buf); i++ {
		buf[i] = 0xA5
	}
	return buf[:len(b)]
}
func unchanged(s []byte, orig []byte) bool {
	full := s[:cap(s)]
	if !bytes.Equal(full[:len(orig)], orig) {
		return false
	}
	for _, c := range full[len(orig):] {
		if c != 0xA5 {
			return false
		}
	}
	return true
}

func init() {
	props["C07"] = &Prop{Gen: genC07, Exec: execC07}
}

// scribbleCap: a caller owns every slice a function returned to it - it may append to it and overwrite it up to its
// capacity. If the result shared memory with internal state (a look-up table, a cached buffer) or with another result,
// the cases executed afterwards in this process come out differently.
func scribbleCap(b []byte) {
	b = b[:cap(b)]
	for i := range b {
		b[i] = 0xEE
	}
}

func execC07(c Case) string {
	a := c.Args
	switch c.Op {
	case "b58enc":
		return hs(base58.Encode(unhx(a[0])))
	case "b58dec":
		d := base58.Decode(string(unhx(a[0])))
		defer scribbleCap(d)
		return hx(d)
	case "b58rt":
		e := base58.Encode(unhx(a[0]))
		return hs(e) + " " + hx(base58.Decode(e))
	case "b58sr":
		d := base58.Decode(string(unhx(a[0])))
		defer scribbleCap(d)
		return hx(d) + " " + hs(base58.Encode(d))
	case "chkenc":
		return hs(base58.CheckEncode(unhx(a[1]), byte(atoi(a[0]))))
	case "chkdec":
		p, v, err := base58.CheckDecode(string(unhx(a[0])))
		if err != nil && (p != nil || v != 0) {
			return "err-with-a-payload:" + itoa(int(v)) + ":" + hx(p) // nothing unverified may come back with an error
		}
		if err == base58.ErrInvalidFormat {
			return "err:format"
		} else if err == base58.ErrChecksum {
			return "err:checksum"
		} else if err != nil {
			return "err:other"
		}
		defer scribbleCap(p)
		return "ok:" + itoa(int(v)) + ":" + hx(p)
	case "cb":
		return cbObs(bech32.ConvertBits(unhx(a[3]), uint8(atoi(a[0])), uint8(atoi(a[1])), a[2] == "1"))
	case "cbrt":
		five, err := bech32.ConvertBits(unhx(a[0]), 8, 5, true)
		if err != nil {
			return "err"
		}
		return hx(five) + " " + cbObs(bech32.ConvertBits(five, 5, 8, false))
	case "bechenc":
		s, err := bech32.Encode(string(unhx(a[0])), unhx(a[1]))
		if err != nil {
			return "err"
		}
		return "ok:" + hs(s)
	case "bechdec":
		h, d, err := bech32.Decode(string(unhx(a[0])))
		if err != nil {
			return bechErr(err)
		}
		defer scribbleCap(d)
		return "ok:" + hs(h) + ":" + hx(d)
	case "pure":
		// pure <fn> <spare> <hex data> [hrp | from to pad | version]
		spare := atoi(a[1])
		orig := unhx(a[2])
		arg := withSpare(orig, spare)
		switch a[0] {
		case "bechenc":
			bech32.Encode(string(unhx(a[3])), arg)
		case "cb":
			bech32.ConvertBits(arg, uint8(atoi(a[3])), uint8(atoi(a[4])), a[5] == "1")
		case "b58enc":
			base58.Encode(arg)
		case "chkenc":
			base58.CheckEncode(arg, byte(atoi(a[3])))
		default:
			panic("harness: pure fn")
		}
		if unchanged(arg, orig) {
			return "unchanged"
		}
		return "modified:" + hx(arg[:cap(arg)])
	}
	panic("harness: unknown op " + c.Op)
}

func genC07(r *Rng, tier string, emit func(Case)) {
	n := 1500
	if tier == "thorough" {
		n = 40000
	}
	e := func(op, cls string, args ...string) { emit(Case{op, cls, args}) }
	// --- exhaustive small scopes
	maxLen := 1
	if tier == "thorough" {
		maxLen = 2
	}
	var rec func(prefix []byte, depth int)
	rec = func(prefix []byte, depth int) {
		e("b58rt", "exh", hx(prefix))
		if depth == 0 {
			return
		}
		for v := 0; v < 256; v++ {
			rec(append(append([]byte{}, prefix...), byte(v)), depth-1)
		}
	}
	rec(nil, maxLen)
	// strings over and outside the alphabet, exhaustively to length 2 (3 in thorough: printable subset)
	chars := []byte(b58alpha + "0OIl +/\x00\xff")
	var recs func(prefix []byte, depth int)
	recs = func(prefix []byte, depth int) {
		e("b58sr", "exh", hx(prefix))
		if depth == 0 {
			return
		}
		for _, v := range chars {
			recs(append(append([]byte{}, prefix...), v), depth-1)
		}
	}
	sl := 2
	if tier == "thorough" {
		sl = 3
	}
	recs(nil, sl)
	// Base58: very long runs of leading zero bytes / leading '1' characters (a run length kept in one byte wraps at 256)
	for _, z := range []int{254, 255, 256, 257, 300, 511, 512, 513} {
		e("b58rt", "zeros", hx(append(make([]byte, z), 1, 2)))
		e("b58rt", "zeros", hx(make([]byte, z)))
		e("b58sr", "ones", hx(append([]byte(strings.Repeat("1", z)), '2', 'a')))
	}
	// Base58 strings with every 3-character beginning over a small digit set and lengths of both parities (encoders that
	// take several digits per division treat the leading, incomplete group specially), and strings holding blocks of
	// 9, 10, 11 and 20 '1' digits (value 0) at every offset 0..11 from the end
	for _, c1 := range "12az" {
		for _, c2 := range "12az" {
			for _, c3 := range "12az" {
				for _, l := range []int{3, 4, 5, 8, 9, 10, 11, 20, 21} {
					t := []byte{byte(c1), byte(c2), byte(c3)}
					for len(t) < l {
						t = append(t, b58alpha[r.Intn(58)])
					}
					e("b58sr", "heads", hx(t))
				}
			}
		}
	}
	for _, k := range []int{9, 10, 11, 20} {
		for off := 0; off <= 11; off++ {
			t := append([]byte("2z"), bytes.Repeat([]byte{'1'}, k)...)
			for j := 0; j < off; j++ {
				t = append(t, b58alpha[1+r.Intn(57)])
			}
			e("b58sr", "onesblock", hx(t))
		}
	}
	// Base58Check: every payload length 0..80 (fixed-size buffers around 32 and 64 bytes)
	for l := 0; l <= 80; l++ {
		pl := r.Bytes(l)
		e("chkenc", "lens", itoa(r.Intn(256)), hx(pl))
		e("chkdec", "lens", hs(base58.CheckEncode(pl, byte(l))))
	}
	// bech32.Encode: every byte value as a data symbol, alone and at the first / middle / last position of valid
	// 5-bit data (the boundary 31 | 32 of the alphabet guard, and values whose low five bits are a valid symbol)
	for v := 0; v < 256; v++ {
		e("bechenc", "symsweep", hx([]byte("a")), hx([]byte{byte(v)}))
		for _, pos := range []int{0, 3, 6} {
			d := []byte{1, 2, 3, 4, 5, 6, 7}
			d[pos] = byte(v)
			e("bechenc", "symsweep", hx([]byte("bc")), hx(d))
		}
	}
	// --- random structured
	for i := 0; i < n; i++ {
		ln := r.Pick(0, 1, 2, 3, 4, 5, 8, 16, 20, 21, 25, 32, 33, 37, 38, 64, 78, 82, 100, 255, 256, 512)
		if r.Intn(3) == 0 {
			ln = r.Intn(64)
		}
		b := r.Bytes(ln)
		z := r.Pick(0, 0, 1, 2, 3, 8)
		for j := 0; j < z && j < len(b); j++ {
			b[j] = 0
		}
		if r.Intn(10) == 0 {
			for j := range b {
				b[j] = 0xff
			}
		}
		e("b58rt", "rand", hx(b))
		e("b58enc", "rand", hx(b))
		// string over alphabet with leading '1's
		sl := r.Intn(60)
		s := make([]byte, sl)
		for j := range s {
			s[j] = b58alpha[r.Intn(58)]
		}
		o := r.Pick(0, 0, 1, 2, 5)
		for j := 0; j < o && j < len(s); j++ {
			s[j] = '1'
		}
		e("b58sr", "alpha", hx(s))
		e("b58dec", "alpha", hx(s))
		if len(s) > 0 && r.Intn(4) == 0 {
			e("b58sr", "utf8", hs(utf8Variant(r, string(s))))
			e("chkdec", "utf8", hs(utf8Variant(r, base58.CheckEncode(r.Bytes(20), byte(r.Intn(256))))))
		}
		if len(s) > 0 && r.Intn(3) == 0 {
			s2 := append([]byte{}, s...)
			s2[r.Intn(len(s2))] = []byte("0OIl _\x80\xff")[r.Intn(8)]
			e("b58sr", "foreign", hx(s2))
		}
		// base58check
		ver := r.Intn(256)
		pl := r.Bytes(r.Pick(0, 1, 20, 20, 32, 33, 34, r.Intn(50)))
		e("chkenc", "rand", itoa(ver), hx(pl))
		enc := base58.CheckEncode(pl, byte(ver))
		e("chkdec", "valid", hs(enc))
		if i%4 == 0 {
			// the same string wrapped in white space or other bytes outside the alphabet
			for _, t := range []string{" ", "\t", "\n", "\r\n", "\x00", "0"} {
				e("chkdec", "wrapped", hs(t+enc))
				e("chkdec", "wrapped", hs(enc+t))
				e("chkdec", "wrapped", hs(t+enc+t))
			}
		}
		// near valid: corrupt one byte of decoded payload (checksum then fails), or short
		dec := base58.Decode(enc)
		k := r.Intn(len(dec))
		dec[k] ^= byte(1 << uint(r.Intn(8)))
		e("chkdec", "bitflip", hs(base58.Encode(dec)))
		e("chkdec", "short", hs(base58.Encode(r.Bytes(r.Intn(6)))))
		e("chkdec", "randstr", hx(s))
		// convertbits all widths
		from, to := 1+r.Intn(8), 1+r.Intn(8)
		d := r.Bytes(r.Intn(12))
		if r.Bool() {
			for j := range d {
				d[j] &= byte(1<<uint(from)) - 1
			}
		}
		e("cb", "widths", itoa(from), itoa(to), b2s(r.Bool()), hx(d))
		if r.Intn(20) == 0 {
			e("cb", "badwidths", itoa(r.Pick(0, 9, 255, 3)), itoa(r.Pick(0, 9, 200, 5)), b2s(r.Bool()), hx(d))
		}
		d8 := r.Bytes(r.Pick(0, 1, 2, 3, 4, 5, 6, 7, 20, 32, r.Intn(40)))
		e("cbrt", "rand", hx(d8))
		// 5->8 on arbitrary 5-bit data: padding rules
		d5 := r.Bytes(r.Intn(20))
		for j := range d5 {
			d5[j] &= 31
		}
		e("cb", "5to8", "5", "8", "0", hx(d5))
		if len(d5) > 0 && r.Bool() {
			d5[len(d5)-1] = 0
			e("cb", "5to8z", "5", "8", "0", hx(d5))
		}
		// bech32
		hl := 1 + r.Intn(10)
		hrp := make([]byte, hl)
		for j := range hrp {
			hrp[j] = byte(33 + r.Intn(94))
			if hrp[j] >= 'A' && hrp[j] <= 'Z' {
				hrp[j] += 32
			}
		}
		dl := r.Pick(0, 1, 10, 32, 52, r.Intn(84), 90-7-hl, 90-6-hl, 90-8-hl)
		if dl < 0 {
			dl = 0
		}
		data := r.Bytes(dl)
		for j := range data {
			data[j] &= 31
		}
		e("bechenc", "valid", hx(hrp), hx(data))
		s0, err := bech32.Encode(string(hrp), append([]byte{}, data...))
		if err == nil {
			e("bechdec", "valid", hs(s0))
			// bit variants: one data character replaced by the same byte with one bit flipped (all 8 bits), in the
			// lower- and the upper-case rendering (control bytes, the other case, bytes with the top bit set)
			if i%3 == 0 && len(s0) > len(hrp)+1 {
				for _, base := range []string{s0, strings.ToUpper(s0)} {
					pos := len(hrp) + 1 + r.Intn(len(s0)-len(hrp)-1)
					for b := uint(0); b < 8; b++ {
						t := []byte(base)
						t[pos] ^= 1 << b
						e("bechdec", "bitvariant", hs(string(t)))
					}
				}
			}
			// a valid string followed / preceded by further characters (foreign ones, alphabet ones, white space)
			if i%4 == 0 {
				for _, t := range []string{"b", "~x", "q", " ", "\n", "\x00", "1q"} {
					e("bechdec", "trail", hs(s0+t))
					e("bechdec", "lead", hs(t+s0))
				}
			}
			// every single bit of the six checksum symbols flipped (quick: one symbol per case, all five bits)
			if len(s0) >= 6 {
				const cs = "qpzry9x8gf2tvdw0s3jn54khce6mua7l"
				for k := 0; k < 6; k++ {
					if tier != "thorough" && k != i%6 {
						continue
					}
					pos := len(s0) - 6 + k
					v := strings.IndexByte(cs, s0[pos])
					for b := 0; b < 5 && v >= 0; b++ {
						t := []byte(s0)
						t[pos] = cs[v^(1<<uint(b))]
						e("bechdec", "ckbit", hs(string(t)))
					}
				}
			}
			e("bechdec", "upper", hs(strings.ToUpper(s0)))
			if r.Intn(4) == 0 {
				e("bechdec", "utf8", hs(utf8Variant(r, s0)))
			}
			m := []byte(s0)
			switch r.Intn(8) {
			case 0: // mixed case
				for j := range m {
					if m[j] >= 'a' && m[j] <= 'z' {
						m[j] -= 32
						break
					}
				}
				e("bechdec", "mixed", hx(m))
			case 1:
				m[r.Intn(len(m))] = byte(r.Pick(0, 32, 127, 200, ' '))
				e("bechdec", "badchar", hx(m))
			case 2:
				m[len(hrp)+1+r.Intn(len(m)-len(hrp)-1)] = byte(r.Pick('b', 'i', 'o', '1'))
				e("bechdec", "badcharset", hx(m))
			case 3:
				k := len(hrp) + 1 + r.Intn(len(m)-len(hrp)-1)
				m[k] = bechCharset[(strings.IndexByte(bechCharset, m[k])+1+r.Intn(31))%32]
				e("bechdec", "subst", hx(m))
			case 4:
				e("bechdec", "trunc", hx(m[:r.Intn(len(m))]))
			case 5:
				e("bechdec", "nosep", hx(bytes.ReplaceAll(m, []byte("1"), []byte("q"))))
			case 6:
				e("bechdec", "sepfirst", hx(append([]byte("1"), m[len(hrp)+1:]...)))
			case 7:
				e("bechdec", "long", hx(append(m, bytes.Repeat([]byte("q"), r.Intn(10))...)))
			}
		}
		// strings with a VALID checksum (built by the independent spec encoder, not by the code under test) that must be
		// rejected for another reason: longer than 90 characters, an hrp character outside 33..126, an empty hrp, or that
		// sit exactly on the limit (90 characters: accepted)
		if r.Intn(8) == 0 {
			mk := func(h string, n int) string {
				d := r.Bytes(n)
				for j := range d {
					d[j] &= 31
				}
				return h + "1" + symsToString(specBechEncode(h, d))
			}
			h := "ab"
			e("bechdec", "spec:len90", hs(mk(h, 90-len(h)-1-6)))
			e("bechdec", "spec:len91", hs(mk(h, 91-len(h)-1-6)))
			e("bechdec", "spec:len120", hs(mk(h, 120-len(h)-1-6)))
			e("bechdec", "spec:hrp-space", hs(mk("a b", 8)))
			e("bechdec", "spec:hrp-del", hs(mk("a\x7fb", 8)))
			e("bechdec", "spec:hrp-high", hs(mk("a\x80b", 8)))
			e("bechdec", "spec:hrp-empty", hs(mk("", 8)))
			e("bechdec", "spec:hrp-upper", hs(mk("Ab", 8)))
			e("bechdec", "spec:data-short", hs("ab1"+symsToString(specBechEncode("ab", nil))[1:]))
		}
		// boundary shapes of the human-readable part: empty (separator first), one character, a character just outside 33..126
		if r.Intn(6) == 0 {
			if se, err := bech32.Encode("", append([]byte{}, data...)); err == nil {
				e("bechdec", "emptyhrp", hs(se))
				e("bechdec", "emptyhrp", hs(strings.ToUpper(se)))
			}
			for _, h := range []string{"a", "1", "11", string([]byte{byte(r.Pick(32, 127, 31, 128))}) + "a"} {
				if se, err := bech32.Encode(h, append([]byte{}, data...)); err == nil {
					e("bechdec", "hrpshape", hs(se))
				}
			}
		}
		if r.Intn(10) == 0 {
			data2 := r.Bytes(1 + r.Intn(5))
			e("bechenc", "bad5bit", hx(hrp), hx(data2))
		}
		// purity with spare capacity
		spare := r.Pick(0, 1, 5, 6, 7, 64)
		switch r.Intn(4) {
		case 0:
			e("pure", "bechenc", "bechenc", itoa(spare), hx(data), hx(hrp))
		case 1:
			e("pure", "cb", "cb", itoa(spare), hx(d8), "8", "5", "1")
			// the widening direction and arbitrary widths too (an in-place conversion is tempting when the output
			// is shorter than the input)
			e("pure", "cb", "cb", itoa(spare), hx(d5), "5", "8", "0")
			e("pure", "cb", "cb", itoa(spare), hx(d5), "5", "8", "1")
			e("pure", "cb", "cb", itoa(spare), hx(d), itoa(from), itoa(to), "1")
		case 2:
			e("pure", "b58enc", "b58enc", itoa(spare), hx(b))
		case 3:
			e("pure", "chkenc", "chkenc", itoa(spare), hx(pl), itoa(ver))
		}
	}
}
