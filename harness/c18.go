package main

import (
	"bytes"
	"sort"
	"strings"

	"github.com/gcash/bchd/chaincfg/chainhash"
	"github.com/gcash/bchd/wire"
	"github.com/gcash/bchutil"
	"github.com/gcash/bchutil/coinset"
	"github.com/gcash/bchutil/txsort"
)

func init() {
	props["C18"] = &Prop{Gen: genC18, Exec: execC18}
	props["C19"] = &Prop{Gen: genC19, Exec: execC19}
}

// hash tokens: XX = 32 x XX; fXX = first byte; lXX = last byte; mXX = byte 15; nXX = byte 16; else 64 hex digits
func hashTok(t string) chainhash.Hash {
	var h chainhash.Hash
	switch {
	case len(t) == 2:
		b := unhx(t)[0]
		for i := range h {
			h[i] = b
		}
	case len(t) == 3 && t[0] == 'f':
		h[0] = unhx(t[1:])[0]
	case len(t) == 3 && t[0] == 'l':
		h[31] = unhx(t[1:])[0]
	case len(t) == 3 && t[0] == 'm':
		h[15] = unhx(t[1:])[0]
	case len(t) == 3 && t[0] == 'n':
		h[16] = unhx(t[1:])[0]
	default:
		copy(h[:], unhx(t))
	}
	return h
}

func buildSortTx(ins, outs string) *wire.MsgTx {
	tx := wire.NewMsgTx(2)
	tx.LockTime = 77
	for _, s := range splitOr(ins, ",") {
		f := strings.Split(s, ":")
		h := hashTok(f[0])
		in := wire.NewTxIn(wire.NewOutPoint(&h, uint32(atou(f[1]))), []byte{byte(atoi(f[2]))})
		in.Sequence = uint32(atoi(f[2]))
		tx.AddTxIn(in)
	}
	for _, s := range splitOr(outs, ",") {
		f := strings.Split(s, ":")
		sc := unhx(f[1])
		td := wire.TokenData{}
		if len(sc) > 0 && sc[0] == 0xff {
			// outputs whose script starts with ff carry CashToken data (a function of amount and script, so that
			// equal sort keys mean equal outputs)
			var cat [32]byte
			for i := range cat {
				cat[i] = sc[i%len(sc)]
			}
			amt := uint64(atoi64(f[0])&0xffff) + 1
			// an NFT commitment too (a function of the script, as the category): byte slices inside an output that a
			// copy has to carry along with the right output
			com := append([]byte{byte(len(sc))}, sc...)
			capab := byte(len(sc) % 3)
			if t, err := wire.NewTokenData(cat, &amt, &com, &capab); err == nil {
				td = *t
			}
		}
		tx.AddTxOut(wire.NewTxOut(atoi64(f[0]), sc, td))
	}
	return tx
}

// aliasPrefixScripts re-points every output script that is a prefix of another output's script at the front of that
// longer script's backing array (what a caller slicing scripts out of one buffer has): equal addresses, different
// lengths. Values are unchanged.
func aliasPrefixScripts(tx *wire.MsgTx) {
	for i, o := range tx.TxOut {
		best := -1
		for j, p := range tx.TxOut {
			if j != i && len(p.PkScript) > len(o.PkScript) && len(o.PkScript) > 0 && bytes.HasPrefix(p.PkScript, o.PkScript) &&
				(best < 0 || len(p.PkScript) > len(tx.TxOut[best].PkScript)) {
				best = j
			}
		}
		if best >= 0 {
			o.PkScript = tx.TxOut[best].PkScript[:len(o.PkScript)]
		}
	}
}

// elemSers: the full wire serialisation of every input and output on its own, sorted (a multiset)
func elemSers(tx *wire.MsgTx) string {
	t := []string{}
	for _, in := range tx.TxIn {
		one := wire.NewMsgTx(1)
		one.AddTxIn(in)
		t = append(t, "i"+hx(serTx(one)))
	}
	for _, o := range tx.TxOut {
		one := wire.NewMsgTx(1)
		one.AddTxOut(o)
		t = append(t, "o"+hx(serTx(one)))
	}
	sort.Strings(t)
	return strings.Join(t, ",")
}

func insTok(tx *wire.MsgTx) string {
	t := []string{}
	for _, in := range tx.TxIn {
		t = append(t, hx(in.PreviousOutPoint.Hash[:])+":"+u64s(uint64(in.PreviousOutPoint.Index))+":"+u64s(uint64(in.Sequence)))
	}
	return joinOr(t, ",")
}
func outsTok(tx *wire.MsgTx) string {
	t := []string{}
	for _, o := range tx.TxOut {
		t = append(t, i64s(o.Value)+":"+hx(o.PkScript))
	}
	return joinOr(t, ",")
}
func serTx(tx *wire.MsgTx) []byte {
	var b bytes.Buffer
	must(tx.Serialize(&b))
	return b.Bytes()
}

func execC18(c Case) string {
	a := c.Args
	switch c.Op {
	case "sort":
		tx := buildSortTx(a[0], a[1])
		aliasPrefixScripts(tx)
		before := serTx(tx)
		wasSorted := txsort.IsSorted(tx)
		s := txsort.Sort(tx)
		unchanged := bytes.Equal(before, serTx(tx))
		sortedIns, sortedOuts := insTok(s), outsTok(s)
		// "exactly the same inputs and outputs and otherwise identical fields": every field of every element
		// (scripts, sequence numbers, token data) survives, not just the sort keys
		meta := s.Version == tx.Version && s.LockTime == tx.LockTime && elemSers(s) == elemSers(tx)
		sortedSer := serTx(s)
		isS := txsort.IsSorted(s)
		s2 := txsort.Sort(s)
		idem := bytes.Equal(serTx(s), serTx(s2))
		// aliasing probe: scribble over the copy, the original must not change
		for _, in := range s.TxIn {
			for i := range in.SignatureScript {
				in.SignatureScript[i] ^= 0xff
			}
			in.PreviousOutPoint.Index++
		}
		for _, o := range s.TxOut {
			for i := range o.PkScript {
				o.PkScript[i] ^= 0xff
			}
			o.Value++
		}
		indep := bytes.Equal(before, serTx(tx))
		tx2 := buildSortTx(a[0], a[1])
		aliasPrefixScripts(tx2)
		txsort.InPlaceSort(tx2)
		meta = meta && bytes.Equal(sortedSer, serTx(tx2))
		return strings.Join([]string{sortedIns, sortedOuts, b2s(wasSorted), b2s(isS), b2s(unchanged), b2s(meta), b2s(idem), b2s(indep), insTok(tx2), outsTok(tx2), heapFrame(a[0], a[1])}, " ")
	}
	panic("harness: op")
}

// heapFrame observes WHICH MEMORY Sort / InPlaceSort / IsSorted write (the heap-level model Model/TxSortHeap.lean):
// pointer identities, backing arrays, object contents, the slots of the backing arrays outside the slice windows.
// "ok" or a comma-separated list of the frame clauses that do not hold.
func heapFrame(insArg, outsArg string) string {
	bad := []string{}
	elemIn := func(in *wire.TxIn) string { one := wire.NewMsgTx(1); one.AddTxIn(in); return string(serTx(one)) }
	elemOut := func(o *wire.TxOut) string { one := wire.NewMsgTx(1); one.AddTxOut(o); return string(serTx(one)) }
	// a transaction whose slices are windows [1:1+n] of larger backing arrays holding sentinel objects outside
	mk := func() (tx *wire.MsgTx, fullIn []*wire.TxIn, fullOut []*wire.TxOut) {
		t := buildSortTx(insArg, outsArg)
		sIn := func() *wire.TxIn { return wire.NewTxIn(&wire.OutPoint{Index: 7777}, []byte{0x51}) }
		sOut := func() *wire.TxOut { return wire.NewTxOut(7777, []byte{0x51}, wire.TokenData{}) }
		fullIn = append(append([]*wire.TxIn{sIn()}, t.TxIn...), sIn(), sIn())
		fullOut = append(append([]*wire.TxOut{sOut()}, t.TxOut...), sOut(), sOut())
		t.TxIn = fullIn[1 : 1+len(t.TxIn) : len(fullIn)]
		t.TxOut = fullOut[1 : 1+len(t.TxOut) : len(fullOut)]
		return t, fullIn, fullOut
	}
	snap := func(fullIn []*wire.TxIn, fullOut []*wire.TxOut) (pi []*wire.TxIn, po []*wire.TxOut, ci, co []string) {
		pi = append(pi, fullIn...)
		po = append(po, fullOut...)
		for _, x := range fullIn {
			ci = append(ci, elemIn(x))
		}
		for _, x := range fullOut {
			co = append(co, elemOut(x))
		}
		return
	}
	// --- Sort: the old heap is untouched, the result is fresh
	tx, fullIn, fullOut := mk()
	pi, po, ci, co := snap(fullIn, fullOut)
	hdrIn, hdrOut := tx.TxIn, tx.TxOut
	res := txsort.Sort(tx)
	if len(tx.TxIn) != len(hdrIn) || len(tx.TxOut) != len(hdrOut) || (len(hdrIn) > 0 && &tx.TxIn[0] != &hdrIn[0]) || (len(hdrOut) > 0 && &tx.TxOut[0] != &hdrOut[0]) {
		bad = append(bad, "sort:slice-headers-of-original-changed")
	}
	for i := range fullIn {
		if fullIn[i] != pi[i] {
			bad = append(bad, "sort:pointer-array-of-original-written")
			break
		}
	}
	for i := range fullOut {
		if fullOut[i] != po[i] {
			bad = append(bad, "sort:pointer-array-of-original-written")
			break
		}
	}
	for i := range pi {
		if elemIn(pi[i]) != ci[i] {
			bad = append(bad, "sort:object-of-original-written")
			break
		}
	}
	for i := range po {
		if elemOut(po[i]) != co[i] {
			bad = append(bad, "sort:object-of-original-written")
			break
		}
	}
	old := map[interface{}]bool{}
	for _, x := range pi {
		old[x] = true
	}
	for _, x := range po {
		old[x] = true
	}
	fresh := res != tx
	for _, x := range res.TxIn {
		fresh = fresh && !old[x]
	}
	for _, x := range res.TxOut {
		fresh = fresh && !old[x]
	}
	if len(res.TxIn) > 0 && len(tx.TxIn) > 0 && &res.TxIn[0] == &tx.TxIn[0] {
		fresh = false
	}
	if len(res.TxOut) > 0 && len(tx.TxOut) > 0 && &res.TxOut[0] == &tx.TxOut[0] {
		fresh = false
	}
	if !fresh {
		bad = append(bad, "sort:result-shares-memory-with-original")
	}
	// --- IsSorted reads only
	txsort.IsSorted(tx)
	for i := range pi {
		if fullIn[i] != pi[i] || elemIn(pi[i]) != ci[i] {
			bad = append(bad, "issorted:writes")
			break
		}
	}
	for i := range po {
		if fullOut[i] != po[i] || elemOut(po[i]) != co[i] {
			bad = append(bad, "issorted:writes")
			break
		}
	}
	// --- InPlaceSort: only the two pointer windows are written, with permutations of themselves
	tx, fullIn, fullOut = mk()
	pi, po, ci, co = snap(fullIn, fullOut)
	hdrIn, hdrOut = tx.TxIn, tx.TxOut
	txsort.InPlaceSort(tx)
	if len(tx.TxIn) != len(hdrIn) || len(tx.TxOut) != len(hdrOut) || (len(hdrIn) > 0 && &tx.TxIn[0] != &hdrIn[0]) || (len(hdrOut) > 0 && &tx.TxOut[0] != &hdrOut[0]) {
		bad = append(bad, "inplace:slice-headers-changed")
	}
	for i := range pi {
		if elemIn(pi[i]) != ci[i] {
			bad = append(bad, "inplace:object-written")
			break
		}
	}
	for i := range po {
		if elemOut(po[i]) != co[i] {
			bad = append(bad, "inplace:object-written")
			break
		}
	}
	nIn, nOut := len(hdrIn), len(hdrOut)
	if fullIn[0] != pi[0] || fullIn[nIn+1] != pi[nIn+1] || fullIn[nIn+2] != pi[nIn+2] || fullOut[0] != po[0] || fullOut[nOut+1] != po[nOut+1] || fullOut[nOut+2] != po[nOut+2] {
		bad = append(bad, "inplace:written-outside-the-slice-window")
	}
	cnt := map[interface{}]int{}
	for _, x := range pi[1 : 1+nIn] {
		cnt[x]++
	}
	for _, x := range po[1 : 1+nOut] {
		cnt[x]++
	}
	for _, x := range fullIn[1 : 1+nIn] {
		cnt[x]--
	}
	for _, x := range fullOut[1 : 1+nOut] {
		cnt[x]--
	}
	for _, v := range cnt {
		if v != 0 {
			bad = append(bad, "inplace:window-not-a-permutation-of-the-same-pointers")
			break
		}
	}
	if len(bad) == 0 {
		return "ok"
	}
	return strings.Join(bad, ",")
}

func genC18(r *Rng, tier string, emit func(Case)) {
	e := func(op, cls string, args ...string) { emit(Case{op, cls, args}) }
	hashes := []string{"00", "01", "ff", "f01", "f02", "l01", "l02", "m01", "n01", "f80", "l80"}
	idxs := []string{"0", "1", "4294967295"}
	vals := []string{"0", "1", "2100000000000000", "-1", "5", "9007199254740992", "9007199254740993", "9223372036854775806", "9223372036854775807"}
	scripts := []string{"-", "00", "0000", "01", "0001", "ff", "00ff", "ff00", "ff01", "ffff", "ff0000"}
	// all permutations of small key sets
	maxk := 4
	if tier == "thorough" {
		maxk = 6
	}
	var perm func(xs []string, k int, f func([]string))
	perm = func(xs []string, k int, f func([]string)) {
		if k == len(xs) {
			f(append([]string{}, xs...))
			return
		}
		for i := k; i < len(xs); i++ {
			xs[k], xs[i] = xs[i], xs[k]
			perm(xs, k+1, f)
			xs[k], xs[i] = xs[i], xs[k]
		}
	}
	sets := 6
	if tier == "thorough" {
		sets = 40
	}
	for s := 0; s < sets; s++ {
		k := 1 + r.Intn(maxk)
		ins, outs := []string{}, []string{}
		for i := 0; i < k; i++ {
			ins = append(ins, hashes[r.Intn(len(hashes))]+":"+idxs[r.Intn(3)]+":"+itoa(i))
			outs = append(outs, vals[r.Intn(len(vals))]+":"+scripts[r.Intn(len(scripts))])
		}
		perm(ins, 0, func(p []string) { e("sort", "permins", strings.Join(p, ","), "-") })
		perm(outs, 0, func(p []string) { e("sort", "permouts", "-", strings.Join(p, ",")) })
	}
	// two txids that differ in exactly two bytes i < j with opposite order in the two bytes: the comparison must be
	// decided by byte j alone (the more significant one in the reversed reading), wherever i and j lie relative to any
	// word boundary of an implementation that compares several bytes at a time
	for i := 0; i < 32; i++ {
		for _, d := range []int{1, 2, 3, 7, 8, 9, 15, 16, 17, 24, 31} {
			j := i + d
			if j >= 32 {
				continue
			}
			base := r.Bytes(32)
			ha, hb := append([]byte{}, base...), append([]byte{}, base...)
			lo, hi := byte(r.Intn(255)), byte(0)
			hi = lo + 1 + byte(r.Intn(int(255-lo)))
			ha[i], ha[j] = hi, lo
			hb[i], hb[j] = lo, hi
			x, y := hx(ha)+":0:1", hx(hb)+":0:2"
			if r.Bool() {
				x, y = y, x
			}
			e("sort", "twobyte", x+","+y, "-")
		}
	}
	// the empty transaction and transactions with one side empty (version and lock time must be carried)
	e("sort", "empty", "-", "-")
	e("sort", "empty", "01:0:0", "-")
	e("sort", "empty", "-", "5:ff")
	// equal amounts, every ordered pair and triple of the scripts that carry token data (category, amount,
	// commitment): the order is decided by the script bytes alone, the token data travels with its output
	tok := []string{"ff", "ff00", "ff01", "ffff", "ff0000", "00ff"}
	for _, x := range tok {
		for _, y := range tok {
			e("sort", "tokens", "-", "5:"+x+",5:"+y)
			for _, z := range tok[:3] {
				e("sort", "tokens", "-", "5:"+x+",7:"+z+",5:"+y)
			}
		}
	}
	n := 150
	if tier == "thorough" {
		n = 4000
	}
	for i := 0; i < n; i++ {
		// random with ties, <= 12 elements
		k := r.Intn(13)
		ins, outs := []string{}, []string{}
		for j := 0; j < k; j++ {
			ins = append(ins, hashes[r.Intn(len(hashes))]+":"+idxs[r.Intn(3)]+":"+itoa(j))
		}
		k2 := r.Intn(13)
		for j := 0; j < k2; j++ {
			outs = append(outs, vals[r.Intn(len(vals))]+":"+scripts[r.Intn(len(scripts))])
		}
		e("sort", "ties", joinOr(ins, ","), joinOr(outs, ","))
		// larger, distinct keys
		if i%5 == 0 {
			k := 13 + r.Intn(288)
			ins, outs := []string{}, []string{}
			for j := 0; j < k; j++ {
				ins = append(ins, hx(r.Bytes(32))+":"+itoa(r.Intn(4))+":"+itoa(j%250))
				outs = append(outs, u64s(r.U64()%1000000000+uint64(j)*1000000007)+":"+hx(r.Bytes(r.Intn(5))))
			}
			e("sort", "large", strings.Join(ins, ","), strings.Join(outs, ","))
		}
		// more than 12 inputs (beyond insertion sort) with TIES in the sort key and different other fields: whatever
		// order the ties get, Sort and InPlaceSort must give the same one, with every field carried along
		if i%5 == 1 {
			k := 13 + r.Intn(40)
			ins := []string{}
			for j := 0; j < k; j++ {
				ins = append(ins, hashes[r.Intn(3)]+":"+idxs[r.Intn(2)]+":"+itoa(j%250))
			}
			e("sort", "tiesbig", strings.Join(ins, ","), "-")
		}
		// already sorted input
		if i%7 == 0 {
			tx := buildSortTx(joinOr(ins, ","), joinOr(outs, ","))
			s := txsort.Sort(tx)
			e("sort", "presorted", insTok2(s), outsTok(s))
		}
	}
}

// insTok2 re-expresses sorted inputs in case-line syntax (full hash, tag = sequence)
func insTok2(tx *wire.MsgTx) string { return insTok(tx) }

// ---------------------------------------------------------------- C19

type hcoin struct {
	id    int
	hash  chainhash.Hash
	value int64
	confs int64
}

func (c *hcoin) Hash() *chainhash.Hash { return &c.hash }
func (c *hcoin) Index() uint32         { return uint32(c.id) }
func (c *hcoin) Value() bchutil.Amount { return bchutil.Amount(c.value) }
func (c *hcoin) PkScript() []byte      { return nil }
func (c *hcoin) NumConfs() int64       { return c.confs }
func (c *hcoin) ValueAge() int64       { return c.confs * c.value }

func parseCoins(s string) []coinset.Coin {
	out := []coinset.Coin{}
	for i, t := range splitOr(s, ",") {
		f := strings.Split(t, ":")
		c := &hcoin{id: i, value: atoi64(f[0]), confs: atoi64(f[1])}
		c.hash[0], c.hash[1] = byte(i), byte(i>>8)
		out = append(out, c)
	}
	return out
}

func idsOf(cs []coinset.Coin) string {
	t := []string{}
	for _, c := range cs {
		t = append(t, itoa(c.(*hcoin).id))
	}
	return joinOr(t, ",")
}

func execC19(c Case) string {
	a := c.Args
	switch c.Op {
	case "sel": // sel <selector> <maxInputs> <minChange> <minAvg> <target> <coins>
		mi, mc, ma, tg := atoi(a[1]), bchutil.Amount(atoi64(a[2])), atoi64(a[3]), bchutil.Amount(atoi64(a[4]))
		coins := parseCoins(a[5])
		var sel coinset.CoinSelector
		switch a[0] {
		case "minindex":
			sel = coinset.MinIndexCoinSelector{MaxInputs: mi, MinChangeAmount: mc}
		case "minnumber":
			sel = coinset.MinNumberCoinSelector{MaxInputs: mi, MinChangeAmount: mc}
		case "maxvalueage":
			sel = coinset.MaxValueAgeCoinSelector{MaxInputs: mi, MinChangeAmount: mc}
		case "minpriority":
			sel = coinset.MinPriorityCoinSelector{MaxInputs: mi, MinChangeAmount: mc, MinAvgValueAgePerInput: ma}
		}
		before := idsOf(coins)
		r, err := sel.CoinSelect(tg, coins)
		if idsOf(coins) != before {
			return "mutated-offer"
		}
		if err == coinset.ErrCoinsNoSelectionAvailable {
			return "none"
		} else if err != nil {
			return "err"
		}
		// the returned set's own bookkeeping (count and running totals) belongs to the observation too
		tot := "?"
		if cs, ok := r.(*coinset.CoinSet); ok {
			tot = itoa(cs.Num()) + "/" + i64s(int64(cs.TotalValue())) + "/" + i64s(cs.TotalValueAge())
		}
		return "ok:" + idsOf(r.Coins()) + " " + tot
	case "simple": // simple <values> <index> <confs>: SimpleCoin reads its transaction
		tx := wire.NewMsgTx(1)
		for j, v := range splitOr(a[0], ",") {
			tx.AddTxOut(wire.NewTxOut(atoi64(v), []byte{0x51, byte(j)}, wire.TokenData{}))
		}
		btx := bchutil.NewTx(tx)
		idx := atoi(a[1])
		c := &coinset.SimpleCoin{Tx: btx, TxIndex: uint32(idx), TxNumConfs: atoi64(a[2])}
		th := tx.TxHash()
		return i64s(int64(c.Value())) + " " + i64s(c.ValueAge()) + " " + u64s(uint64(c.Index())) + " " + i64s(c.NumConfs()) + " " +
			b2s(*c.Hash() == th) + " " + hx(c.PkScript())
	case "cs": // cs <ops>
		cs := coinset.NewCoinSet(nil)
		next := 0
		res := []string{}
		made := []*hcoin{}
		for _, op := range splitOr(a[0], ",") {
			switch op[0] {
			case 'u':
				f := strings.Split(op[1:], ":")
				c := &hcoin{id: next, value: atoi64(f[0]), confs: atoi64(f[1])}
				c.hash[0], c.hash[1] = byte(next), byte(next>>8)
				next++
				made = append(made, c)
				cs.PushCoin(c)
				res = append(res, ".")
			case 'r': // r<k>: the k-th coin object of this history pushed again (the same pointer)
				cs.PushCoin(made[atoi(op[1:])])
				res = append(res, ".")
			case 'o':
				c := cs.PopCoin()
				if c == nil {
					res = append(res, "nil")
				} else {
					res = append(res, itoa(c.(*hcoin).id))
				}
			case 's':
				c := cs.ShiftCoin()
				if c == nil {
					res = append(res, "nil")
				} else {
					res = append(res, itoa(c.(*hcoin).id))
				}
			}
			res[len(res)-1] += "/" + itoa(cs.Num()) + "/" + i64s(int64(cs.TotalValue())) + "/" + i64s(cs.TotalValueAge()) + "/" + strings.ReplaceAll(idsOf(cs.Coins()), ",", ".")
		}
		tx := coinset.NewMsgTxWithInputCoins(1, cs)
		ins := []string{}
		okf := true
		for _, in := range tx.TxIn {
			ins = append(ins, itoa(int(in.PreviousOutPoint.Hash[0])|int(in.PreviousOutPoint.Hash[1])<<8)+"@"+u64s(uint64(in.PreviousOutPoint.Index)))
			okf = okf && in.SignatureScript == nil && in.Sequence == wire.MaxTxInSequenceNum
		}
		return joinOr(res, ",") + " " + joinOr(ins, ".") + " " + b2s(okf) + " " + itoa(int(tx.Version))
	}
	panic("harness: op")
}

func genC19(r *Rng, tier string, emit func(Case)) {
	e := func(op, cls string, args ...string) { emit(Case{op, cls, args}) }
	sels := []string{"minindex", "minnumber", "maxvalueage", "minpriority"}
	for i := 0; i < 40; i++ {
		k := 1 + r.Intn(4)
		vs := []string{}
		for j := 0; j < k; j++ {
			vs = append(vs, i64s(int64(r.U64()%2100000000000000)))
		}
		e("simple", "coin", strings.Join(vs, ","), itoa(r.Intn(k)), i64s(int64(r.Intn(1000))))
	}
	// values above 2^53 that differ in their low bits only (an order computed through float64 cannot tell them apart)
	for _, sel := range sels {
		for _, base := range []int64{1 << 53, 1 << 56, 1 << 60} { // sums of values and value-ages stay below 2^63
			coins := i64s(base) + ":1," + i64s(base+1) + ":2," + i64s(base+2) + ":1," + i64s(base-1) + ":3"
			e("sel", "bigvalues", sel, "2", "0", "0", i64s(base+2), coins)
			e("sel", "bigvalues", sel, "1", "0", "0", i64s(base+1), coins)
		}
	}
	// witnesses of the three repaired defects
	e("sel", "fixed1", "minpriority", "1", "0", "500", "20", "10:1,10:100")
	e("sel", "fixed2", "minpriority", "10", "10", "0", "100", "100:10,1:1")
	e("sel", "fixed3", "minpriority", "4", "2", "4", "14", "3:2,4:0,4:3,4:0,3:3")
	if tier == "thorough" {
		// exhaustive small scope: <= 4 coins over a small alphabet, all parameters
		vals := []string{"1:0", "2:1", "3:2", "2:3"}
		var rec func(cur []string)
		rec = func(cur []string) {
			if len(cur) > 0 {
				tot := 0
				for _, c := range cur {
					tot += atoi(strings.Split(c, ":")[0])
				}
				for tg := 1; tg <= tot+1; tg++ {
					for mi := 0; mi <= len(cur)+1; mi++ {
						for mc := 0; mc <= 2; mc++ {
							for _, s := range sels[:3] {
								e("sel", "exh", s, itoa(mi), itoa(mc), "0", itoa(tg), strings.Join(cur, ","))
							}
							for ma := 0; ma <= 6; ma += 1 {
								e("sel", "exh", "minpriority", itoa(mi), itoa(mc), itoa(ma), itoa(tg), strings.Join(cur, ","))
							}
						}
					}
				}
			}
			if len(cur) == 4 {
				return
			}
			for _, v := range vals {
				rec(append(append([]string{}, cur...), v))
			}
		}
		rec(nil)
	}
	// realistic magnitudes: values of 10^10..10^12 satoshi with 10^4..2*10^5 confirmations give value-ages above
	// 2^53 (where float64 arithmetic stops being exact); thresholds sit exactly on / next to the value-age sums
	nl := 600
	if tier == "thorough" {
		nl = 20000
	}
	for i := 0; i < nl; i++ {
		k := 1 + r.Intn(5)
		coins := []string{}
		vs, vas := []int64{}, []int64{}
		for j := 0; j < k; j++ {
			v := int64(10000000000) + int64(r.U64()%990000000000)
			if r.Intn(4) == 0 {
				v = int64(r.Pick(1, 2, 3)) * 100000000000
			}
			v += int64(r.Pick(0, 0, 1, 1, 2, 3))
			cf := int64(10000 + r.Intn(190000))
			if r.Intn(4) == 0 {
				cf = int64(r.Pick(50000, 100000, 200000) + r.Pick(0, 1, 2))
			}
			coins = append(coins, i64s(v)+":"+i64s(cf))
			vs, vas = append(vs, v), append(vas, v*cf)
		}
		// a random subset: target = its value, minimum average = its average value-age, each shifted by -1/0/+1
		var tv, tva int64
		cnt := int64(0)
		for j := 0; j < k; j++ {
			if r.Intn(3) != 0 || (j == k-1 && cnt == 0) {
				tv, tva, cnt = tv+vs[j], tva+vas[j], cnt+1
			}
		}
		avg := tva / cnt
		if r.Bool() && tva%cnt != 0 {
			avg++ // the rounded-up quotient
		}
		e("sel", "large", "minpriority", itoa(r.Pick(int(cnt), int(cnt), k, k+1, 1)), i64s(int64(r.Pick(0, 0, 1, 1000))),
			i64s(avg+int64(r.Pick(-1, 0, 0, 1))), i64s(tv+int64(r.Pick(-1, 0, 0, 0, 1))), strings.Join(coins, ","))
		if i%4 == 0 {
			e("sel", "large", sels[r.Intn(3)], itoa(r.Pick(int(cnt), k, 1)), i64s(int64(r.Pick(0, 1, 1000))), "0",
				i64s(tv+int64(r.Pick(-1, 0, 1))), strings.Join(coins, ","))
		}
	}
	// small scope for the min-priority selector with a minimum change at or above the target (the "equals the target
	// or exceeds it by the minimum change" rule is then decided by equality alone)
	nb := 2500
	if tier == "thorough" {
		nb = 40000
	}
	for i := 0; i < nb; i++ {
		k := 2 + r.Intn(4)
		coins := []string{}
		for j := 0; j < k; j++ {
			coins = append(coins, itoa(1+r.Intn(6))+":"+itoa(r.Intn(5)))
		}
		tg := 1 + r.Intn(8)
		e("sel", "bigchange-small", "minpriority", itoa(1+r.Intn(6)), itoa(tg+r.Intn(7)-1), itoa(r.Intn(9)), itoa(tg), strings.Join(coins, ","))
	}
	n := 3000
	if tier == "thorough" {
		n = 60000
	}
	for i := 0; i < n; i++ {
		k := r.Intn(13)
		if r.Intn(3) == 0 {
			k = r.Intn(6)
		}
		coins := []string{}
		sum := 0
		for j := 0; j < k; j++ {
			v := r.Pick(0, 1, 2, 3, 4, 5, 1000)
			if r.Intn(12) != 0 && v == 1000 {
				v = 1 + r.Intn(5)
			}
			cf := r.Pick(0, 1, 2, 3, 4, 5, 100)
			if r.Intn(12) != 0 && cf == 100 {
				cf = r.Intn(6)
			}
			coins = append(coins, itoa(v)+":"+itoa(cf))
			sum += v
		}
		// targets around prefix sums
		tg := r.Intn(sum + 2)
		if k > 0 && r.Bool() {
			p := 0
			kk := 1 + r.Intn(k)
			for j := 0; j < kk; j++ {
				p += atoi(strings.Split(coins[j], ":")[0])
			}
			tg = p + r.Pick(-1, 0, 0, 1)
		}
		e("sel", "rand", sels[r.Intn(4)], itoa(r.Intn(14)), itoa(r.Intn(4)), itoa(r.Intn(13)), itoa(tg), joinOr(coins, ","))
		if i%5 == 0 {
			// a minimum change larger than the target (and around the coin values)
			e("sel", "bigchange", sels[r.Intn(4)], itoa(r.Intn(14)), itoa(tg+r.Pick(0, 1, 2, 5)), itoa(r.Intn(13)), itoa(1+r.Intn(tg+1)), joinOr(coins, ","))
		}
		if i%6 == 0 {
			ops := []string{}
			nmade := 0
			for j := 0; j < r.Intn(20); j++ {
				if nmade > 0 && r.Intn(4) == 0 {
					// the same coin object again: mostly the one pushed last (it is at the back of the list)
					k := nmade - 1
					if r.Intn(3) == 0 {
						k = r.Intn(nmade)
					}
					ops = append(ops, "r"+itoa(k))
					continue
				}
				switch r.Intn(4) {
				case 0, 1:
					nmade++
					ops = append(ops, "u"+itoa(r.Intn(1000))+":"+itoa(r.Intn(50)))
				case 2:
					ops = append(ops, "o")
				case 3:
					ops = append(ops, "s")
				}
			}
			e("cs", "hist", joinOr(ops, ","))
		}
	}
}
