//go:build verif_nohook_bech32

package main

// Stubs used when /repo's verif hooks of package bech32 no longer compile against the modified tree:
// the ops that need them report HARNESS:hook-unavailable and only the properties relying on them are affected.

func hk_bech32_Polymod(values []int) int {
	panic("harness: hook bech32.VerifPolymod unavailable")
}

func hk_bech32_Charset() string {
	panic("harness: hook bech32.VerifCharset unavailable")
}

func hk_bech32_Gen() []int {
	panic("harness: hook bech32.VerifGen unavailable")
}
