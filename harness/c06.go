package main

import (
	"strings"

	"github.com/gcash/bchd/bchec"
	"github.com/gcash/bchd/chaincfg"
	"github.com/gcash/bchd/chaincfg/chainhash"
	"github.com/gcash/bchutil"
	"github.com/gcash/bchutil/base58"
)

func init() { props["C06"] = &Prop{Gen: genC06, Exec: execC06} }

func wifObs(w *bchutil.WIF, err error) string {
	if err == bchutil.ErrMalformedPrivateKey {
		return "err,malformed"
	} else if err == bchutil.ErrChecksumMismatch {
		return "err,checksum"
	} else if err != nil {
		return "err,other"
	}
	bits := ""
	for _, n := range nets {
		bits += b2s(w.IsForNet(n))
	}
	key := w.PrivKey.Serialize()
	// netID is unexported: recover it from the re-encoded string
	re := w.String()
	id := base58.Decode(re)[0]
	return "ok," + hx(key) + "," + b2s(w.CompressPubKey) + "," + itoa(int(id)) + "," + bits + "," + hs(re)
}

func execC06(c Case) string {
	a := c.Args
	switch c.Op {
	case "wif":
		priv, _ := bchec.PrivKeyFromBytes(bchec.S256(), unhx(a[2]))
		w, err := bchutil.NewWIF(priv, &chaincfg.Params{PrivateKeyID: byte(atoi(a[0]))}, a[1] == "1")
		if err != nil {
			return "ctorerr"
		}
		s := w.String()
		d, err := bchutil.DecodeWIF(s)
		return hs(s) + " " + wifObs(d, err) + " " + hx(w.SerializePubKey())
	case "wifdec":
		d, err := bchutil.DecodeWIF(string(unhx(a[0])))
		return wifObs(d, err)
	case "wifnil": // NewWIF without a network is refused (no nil dereference later)
		priv, _ := bchec.PrivKeyFromBytes(bchec.S256(), unhx(a[0]))
		w, err := bchutil.NewWIF(priv, nil, a[1] == "1")
		if err != nil && w == nil {
			return "refused"
		}
		return "accepted"
	case "wifhist": // wifhist <netid> <compress> <key> <steps>: one WIF value whose exported fields change between calls
		priv, _ := bchec.PrivKeyFromBytes(bchec.S256(), unhx(a[2]))
		w, err := bchutil.NewWIF(priv, &chaincfg.Params{PrivateKeyID: byte(atoi(a[0]))}, a[1] == "1")
		if err != nil {
			return "ctorerr"
		}
		res := []string{}
		for _, st := range splitOr(a[3], ",") {
			switch st[0] {
			case 'S':
				res = append(res, hs(w.String()))
			case 'P':
				res = append(res, hx(w.SerializePubKey()))
			case 'K':
				w.PrivKey, _ = bchec.PrivKeyFromBytes(bchec.S256(), unhx(st[1:]))
			case 'C':
				w.CompressPubKey = st[1] == '1'
			case 'D':
				d, err := bchutil.DecodeWIF(w.String())
				res = append(res, wifObs(d, err))
			}
		}
		return joinOr(res, " ")
	}
	panic("harness: op")
}

var secpN = []byte{0xFF, 0xFF, 0xFF, 0xFF, 0xFF, 0xFF, 0xFF, 0xFF, 0xFF, 0xFF, 0xFF, 0xFF, 0xFF, 0xFF, 0xFF, 0xFE, 0xBA, 0xAE, 0xDC, 0xE6, 0xAF, 0x48, 0xA0, 0x3B, 0xBF, 0xD2, 0x5E, 0x8C, 0xD0, 0x36, 0x41, 0x41}

func genScalar(r *Rng) []byte {
	k := r.Bytes(32)
	switch r.Intn(10) {
	case 0:
		z := 1 + r.Intn(31)
		for i := 0; i < z; i++ {
			k[i] = 0
		}
	case 1:
		k = make([]byte, 32)
		k[31] = byte(1 + r.Intn(255))
	case 2:
		k = append([]byte{}, secpN...)
		k[31] -= byte(1 + r.Intn(3))
	}
	return k
}

func genC06(r *Rng, tier string, emit func(Case)) {
	e := func(op, cls string, args ...string) { emit(Case{op, cls, args}) }
	n := 300
	if tier == "thorough" {
		n = 6000
	}
	ids := []int{128, 239, 100, 0, 255}
	for i := 0; i < n; i++ {
		k := genScalar(r)
		id := ids[r.Intn(len(ids))]
		if r.Intn(5) == 0 {
			id = r.Intn(256)
		}
		comp := r.Bool()
		e("wif", "valid", itoa(id), b2s(comp), hx(k))
		// near-valid strings with recomputed checksum
		body := append([]byte{byte(id)}, k...)
		marker := byte(r.Pick(0, 1, 2, 0xff))
		ln := r.Pick(33, 34, 34, 34, 32, 35, 0, 1, 20, 45)
		b := append(append([]byte{}, body...), marker)
		for len(b) < ln {
			b = append(b, byte(r.Intn(256)))
		}
		b = b[:ln]
		ck := chainhash.DoubleHashB(b)[:4]
		full := append(append([]byte{}, b...), ck...)
		e("wifdec", "recomputed", hs(base58.Encode(full)))
		// payloads whose total length is 37 or 38 PLUS a multiple of 256 (a length kept in one byte would take them for
		// a WIF): a valid 33/34-byte front, filler, and as last four bytes the checksum of the front - or of everything
		if i%10 == 0 {
			for _, front := range [][]byte{body, append(append([]byte{}, body...), 1)} {
				for _, extra := range []int{256, 512} {
					for _, over := range [][]byte{front, nil} {
						p := append(append([]byte{}, front...), r.Bytes(extra)...)
						src := over
						if src == nil {
							src = p
						}
						p = append(p, chainhash.DoubleHashB(src)[:4]...)
						e("wifdec", "longlen", hs(base58.Encode(p)))
					}
				}
			}
		}
		// each checksum bit flipped / payload bit flipped without recomputation
		good := append(append([]byte{}, body...), chainhash.DoubleHashB(body)[:4]...)
		if comp {
			bb := append(append([]byte{}, body...), 1)
			good = append(bb, chainhash.DoubleHashB(bb)[:4]...)
		}
		e("wifdec", "good", hs(base58.Encode(good)))
		g2 := append([]byte{}, good...)
		bit := r.Intn(len(g2) * 8)
		g2[bit/8] ^= 1 << uint(bit%8)
		e("wifdec", "bitflip", hs(base58.Encode(g2)))
		e("wifdec", "extra1", hs("1"+base58.Encode(good)))
		e("wifdec", "utf8", hs(utf8Variant(r, base58.Encode(good))))
		{
			hb := []byte(base58.Encode(good))
			hb[r.Intn(len(hb))] |= 0x80 // a byte that is a Base58 digit once its top bit is masked off
			e("wifdec", "highbit", hx(hb))
		}
		raw := r.Bytes(r.Intn(60))
		for j := range raw {
			raw[j] = b58alpha[int(raw[j])%58]
		}
		e("wifdec", "raw", hx(raw))
	}
	for i := 0; i < n/3; i++ {
		steps := []string{}
		for j := 2 + r.Intn(8); j > 0; j-- {
			switch r.Intn(6) {
			case 0, 1:
				steps = append(steps, "S")
			case 2:
				steps = append(steps, "P")
			case 3:
				steps = append(steps, "K"+hx(genScalar(r)))
			case 4:
				steps = append(steps, "C"+b2s(r.Bool()))
			case 5:
				steps = append(steps, "D")
			}
		}
		e("wifhist", "history", itoa(ids[r.Intn(len(ids))]), b2s(r.Bool()), hx(genScalar(r)), strings.Join(steps, ","))
	}
	// the byte after the 32 key bytes: in an uncompressed WIF it is the first checksum byte - make it 0x01 (the
	// compression marker), 0x00, 0xff; in a compressed one make the first checksum byte 0x01
	for _, want := range []byte{0x01, 0x01, 0x00, 0xff} {
		for comp := 0; comp < 2; comp++ {
			for try := 0; try < 20000; try++ {
				k := genScalar(r)
				body := append([]byte{128}, k...)
				if comp == 1 {
					body = append(body, 1)
				}
				if chainhash.DoubleHashB(body)[0] == want {
					e("wif", "ckfirst", "128", itoa(comp), hx(k))
					e("wifdec", "ckfirst", hs(base58.Encode(append(body, chainhash.DoubleHashB(body)[:4]...))))
					break
				}
			}
		}
	}
	// every decoded length 0..45 with a recomputed checksum, payload marker bytes 0x01 / other
	for ln := 0; ln <= 41; ln++ {
		for _, last := range []byte{0x01, 0x00} {
			b := r.Bytes(ln)
			if ln > 0 {
				b[0] = 128
				b[ln-1] = last
			}
			full := append(append([]byte{}, b...), chainhash.DoubleHashB(b)[:4]...)
			e("wifdec", "len:"+itoa(ln+4), hs(base58.Encode(full)))
		}
	}
	e("wifnil", "nonet", hx(genScalar(r)), b2s(r.Bool()))
	// edge scalars
	for _, k := range [][]byte{make([]byte, 32), secpN, bytesFF(32)} {
		e("wif", "edge", "128", "1", hx(k))
		e("wif", "edge", "128", "0", hx(k))
	}
}

func bytesFF(n int) []byte {
	b := make([]byte, n)
	for i := range b {
		b[i] = 0xff
	}
	return b
}
