package main

import (
	"bytes"
	"encoding/binary"
	"strings"
	"sync"

	"github.com/gcash/bchd/wire"
	"github.com/gcash/bchutil"
	"github.com/gcash/bchutil/bloom"
	"github.com/gcash/bchutil/gcs"
)

func init() { props["C20"] = &Prop{Gen: genC20, Exec: execC20} }

// item j of goroutine g under seed s
func c20Item(s uint64, g, j int) []byte {
	b := make([]byte, 12)
	binary.LittleEndian.PutUint64(b, s)
	binary.LittleEndian.PutUint16(b[8:], uint16(g))
	binary.LittleEndian.PutUint16(b[10:], uint16(j))
	return b
}

func execC20(c Case) string {
	a := c.Args
	switch c.Op {
	case "stress": // stress <filterlen> <nhash> <tweak> <k> <nops> <seed> <withReload>
		flen, nh, tw := atoi(a[0]), uint32(atou(a[1])), uint32(atou(a[2]))
		k, nops, seed := atoi(a[3]), atoi(a[4]), atou(a[5])
		withReload := a[6] == "1"
		f := bloom.LoadFilter(wire.NewMsgFilterLoad(make([]byte, flen), nh, tw, wire.BloomUpdateNone))
		var wg sync.WaitGroup
		ownOK := make([]bool, k)
		for g := 0; g < k; g++ {
			wg.Add(1)
			go func(g int) {
				defer wg.Done()
				ok := true
				r := NewRng(seed+uint64(g), "C20")
				for j := 0; j < nops; j++ {
					it := c20Item(seed, g, j)
					switch r.Intn(8) {
					case 0:
						f.Add(it)
						if !withReload && !f.Matches(it) {
							ok = false
						}
					case 1:
						h := mkHash(append(it, make([]byte, 20)...))
						f.AddHash(h)
						if !withReload && !f.Matches(h[:]) {
							ok = false
						}
					case 2:
						op := wire.NewOutPoint(mkHash(append(it, make([]byte, 20)...)), uint32(j))
						f.AddOutPoint(op)
						if !withReload && !f.MatchesOutPoint(op) {
							ok = false
						}
					case 3:
						f.Matches(c20Item(seed, (g+1)%k, j))
					case 4:
						f.IsLoaded()
						f.MsgFilterLoad()
					case 5:
						f.MatchTxAndUpdate(bchutil.NewTx(synthTx(uint32(seed), j)))
					case 6:
						if withReload {
							if r.Bool() {
								f.Reload(wire.NewMsgFilterLoad(make([]byte, flen), nh, tw, wire.BloomUpdateNone))
							} else {
								f.Unload()
							}
						} else {
							f.MatchesOutPoint(wire.NewOutPoint(mkHash(it), 1))
						}
					default:
						f.Add(it)
					}
				}
				ownOK[g] = ok
			}(g)
		}
		wg.Wait()
		all := true
		for _, o := range ownOK {
			all = all && o
		}
		if withReload {
			return "done " + b2s(all)
		}
		return filterBits(f) + " " + b2s(all) + " " + b2s(f.IsLoaded())
	case "reloadatomic": // reloadatomic <k> <iters> <seed>: MatchTxAndUpdate must be atomic with respect to Reload
		k, iters, seed := atoi(a[0]), atoi(a[1]), atou(a[2])
		// a transaction with a pay-to-pubkey output whose key is in the "matching" filter
		key := append([]byte{2}, c20Item(seed, 0, 0)...)
		key = append(key, make([]byte, 33-len(key))...)
		tx := wire.NewMsgTx(1)
		tx.AddTxIn(wire.NewTxIn(wire.NewOutPoint(mkHash(c20Item(seed, 1, 1)), 0), nil))
		tx.AddTxOut(wire.NewTxOut(1, p2pk(key), wire.TokenData{}))
		btx := bchutil.NewTx(tx)
		matching := func() *wire.MsgFilterLoad {
			f := bloom.LoadFilter(wire.NewMsgFilterLoad(make([]byte, 64), 5, 7, wire.BloomUpdateAll))
			f.Add(key)
			return f.MsgFilterLoad()
		}
		f := bloom.LoadFilter(matching())
		zeros := []*wire.MsgFilterLoad{}
		stop := make(chan struct{})
		var wg sync.WaitGroup
		for g := 0; g < k; g++ {
			wg.Add(1)
			go func() {
				defer wg.Done()
				for {
					select {
					case <-stop:
						return
					default:
						f.MatchTxAndUpdate(btx)
					}
				}
			}()
		}
		for i := 0; i < iters; i++ {
			z := wire.NewMsgFilterLoad(make([]byte, 64), 5, 7, wire.BloomUpdateAll)
			zeros = append(zeros, z)
			f.Reload(z)
			f.Reload(matching())
		}
		close(stop)
		wg.Wait()
		torn := 0
		for _, z := range zeros {
			for _, b := range z.Filter {
				if b != 0 {
					torn++
					break
				}
			}
		}
		if torn > 0 {
			// an all-zero filter matches nothing, so under any sequential order nothing is ever inserted into it
			return "torn:" + itoa(torn)
		}
		return "ok"
	case "reloadsame": // reloadsame <k> <nops> <seed>: Reload with the message that is loaded is a no-op in every
		// sequential order, so no insertion made around it may be lost
		k, nops, seed := atoi(a[0]), atoi(a[1]), atou(a[2])
		lost := 0
		for round := 0; round < 20; round++ {
			msg := wire.NewMsgFilterLoad(make([]byte, 256), 3, uint32(seed)+uint32(round), wire.BloomUpdateNone)
			f := bloom.LoadFilter(msg)
			var wg sync.WaitGroup
			stop := make(chan struct{})
			wg.Add(1)
			go func() {
				defer wg.Done()
				for {
					select {
					case <-stop:
						return
					default:
						f.Reload(msg)
					}
				}
			}()
			var wi sync.WaitGroup
			for g := 0; g < k; g++ {
				wi.Add(1)
				go func(g int) {
					defer wi.Done()
					for j := 0; j < nops; j++ {
						f.Add(c20Item(seed+uint64(round), g, j))
					}
				}(g)
			}
			wi.Wait()
			close(stop)
			wg.Wait()
			for g := 0; g < k; g++ {
				for j := 0; j < nops; j++ {
					if !f.Matches(c20Item(seed+uint64(round), g, j)) {
						lost++
					}
				}
			}
		}
		if lost > 0 {
			return "lost:" + itoa(lost)
		}
		return "ok"
	case "concquery": // concquery <k> <n> <seed>: queries do not change the filter, so concurrent queries for inserted
		// items (byte strings, hashes, outpoints) all answer true, as in every sequential order
		k, n, seed := atoi(a[0]), atoi(a[1]), atou(a[2])
		f := bloom.LoadFilter(wire.NewMsgFilterLoad(make([]byte, 1024), 4, uint32(seed), wire.BloomUpdateNone))
		ops := []*wire.OutPoint{}
		for j := 0; j < n; j++ {
			it := c20Item(seed, 0, j)
			f.Add(it)
			op := wire.NewOutPoint(mkHash(append(it, make([]byte, 20)...)), uint32(j))
			f.AddOutPoint(op)
			ops = append(ops, op)
		}
		var wg sync.WaitGroup
		miss := make([]int, k)
		for g := 0; g < k; g++ {
			wg.Add(1)
			go func(g int) {
				defer wg.Done()
				for rep := 0; rep < 30; rep++ {
					for j := 0; j < n; j++ {
						x := (j*7 + g*13 + rep) % n
						if !f.MatchesOutPoint(ops[x]) {
							miss[g]++
						}
						if !f.Matches(c20Item(seed, 0, x)) {
							miss[g]++
						}
					}
				}
			}(g)
		}
		wg.Wait()
		tot := 0
		for _, m := range miss {
			tot += m
		}
		if tot > 0 {
			return "false-negatives:" + itoa(tot)
		}
		return "ok"
	case "scanconc": // scanconc <ntx> <iters> <seed>: the block scan only uses the filter through its documented-safe
		// operations, so it may run while other goroutines insert into the same filter (race freedom; the race detector decides)
		ntx, iters, seed := atoi(a[0]), atoi(a[1]), atou(a[2])
		blk := bchutil.NewBlock(synthBlock(ntx, uint32(seed), false))
		f := bloom.LoadFilter(wire.NewMsgFilterLoad(make([]byte, 512), 3, uint32(seed), wire.BloomUpdateAll))
		f.Add([]byte{0x6a, 0})
		var wg sync.WaitGroup
		stop := make(chan struct{})
		wg.Add(1)
		go func() {
			defer wg.Done()
			for j := 0; ; j++ {
				select {
				case <-stop:
					return
				default:
					f.Add(c20Item(seed, 5, j))
					f.Matches(c20Item(seed, 5, j))
					if j%3 == 0 {
						// re-loading the message that is loaded (a documented-safe no-op) while the scan runs
						f.Reload(f.MsgFilterLoad())
						f.IsLoaded()
					}
				}
			}
		}()
		n := 0
		for i := 0; i < iters; i++ {
			n += len(bloom.GetMatchedIndices(blk, f))
			m, _ := bloom.NewMerkleBlock(blk, f)
			n += len(m.Hashes)
		}
		close(stop)
		wg.Wait()
		return "done"
	case "gcsimm": // gcsimm <n> <seed>: a built / rebuilt GCS filter shares no memory with what it was made from or hands out
		n, seed := atoi(a[0]), atou(a[1])
		var key [gcs.KeySize]byte
		key[0] = byte(seed)
		data := [][]byte{}
		for j := 0; j < n; j++ {
			data = append(data, c20Item(seed, 3, j))
		}
		f, err := gcs.BuildGCSFilter(19, 784931, key, data)
		if err != nil {
			return "err"
		}
		want, _ := f.NBytes()
		want = append([]byte{}, want...)
		res := []string{}
		same := func(g *gcs.Filter) string {
			got, _ := g.NBytes()
			return b2s(bytes.Equal(got, want))
		}
		nb := append([]byte{}, want...)
		f2, _ := gcs.FromNBytes(19, 784931, nb)
		raw, _ := f.Bytes()
		raw = append([]byte{}, raw...)
		f3, _ := gcs.FromBytes(f.N(), 19, 784931, raw)
		for i := range nb {
			nb[i] ^= 0xff
		}
		for i := range raw {
			raw[i] ^= 0xff
		}
		for _, d := range data {
			for i := range d {
				d[i] ^= 0xff
			}
		}
		res = append(res, same(f), same(f2), same(f3))
		// the slices handed out by the accessors are the caller's to overwrite
		for _, g := range []*gcs.Filter{f, f2, f3} {
			for _, get := range []func() ([]byte, error){g.Bytes, g.NBytes, g.PBytes, g.NPBytes} {
				out, _ := get()
				for i := range out {
					out[i] ^= 0xff
				}
			}
			res = append(res, same(g))
		}
		return strings.Join(res, "")
	case "gcsconc": // gcsconc <n> <k> <seed>
		n, k, seed := atoi(a[0]), atoi(a[1]), atou(a[2])
		var key [gcs.KeySize]byte
		binary.LittleEndian.PutUint64(key[:], seed)
		data := [][]byte{}
		for i := 0; i < n; i++ {
			data = append(data, c20Item(seed, 0, i))
		}
		f, err := gcs.BuildGCSFilter(19, 784931, key, data)
		if err != nil {
			return "err"
		}
		seq := make([]bool, 2*n)
		for i := range seq {
			seq[i], _ = f.Match(key, c20Item(seed, i%2, i/2))
		}
		var wg sync.WaitGroup
		bad := make([]bool, k)
		for g := 0; g < k; g++ {
			wg.Add(1)
			go func(g int) {
				defer wg.Done()
				for i := range seq {
					m, _ := f.Match(key, c20Item(seed, i%2, i/2))
					q := [][]byte{c20Item(seed, i%2, i/2)}
					z, _ := f.ZipMatchAny(key, q)
					h, _ := f.HashMatchAny(key, q)
					an, _ := f.MatchAny(key, q)
					if m != seq[i] || z != seq[i] || h != seq[i] || an != seq[i] {
						bad[g] = true
					}
				}
			}(g)
		}
		wg.Wait()
		for _, b := range bad {
			if b {
				return "interference"
			}
		}
		return "ok"
	}
	panic("harness: op")
}

func genC20(r *Rng, tier string, emit func(Case)) {
	e := func(op, cls string, args ...string) { emit(Case{op, cls, args}) }
	n := 12
	if tier == "thorough" {
		n = 200
	}
	for i := 0; i < n; i++ {
		k := r.Pick(2, 4, 8, 32)
		nops := r.Pick(50, 200)
		if tier == "thorough" && r.Intn(4) == 0 {
			nops = 2000
		}
		args := []string{itoa(r.Pick(1, 8, 64, 1024)), itoa(r.Pick(1, 3, 10)), u64s(uint64(uint32(r.U64()))), itoa(k), itoa(nops), u64s(r.U64() & 0xffffff)}
		e("stress", "det", append(args, "0")...)
		e("stress", "reload", append(args, "1")...)
	}
	e("reloadsame", "reload-current-message", "4", "20", u64s(r.U64()&0xffff))
	e("concquery", "concurrent-queries", "8", "200", u64s(r.U64()&0xffff))
	e("scanconc", "scan-vs-insert", "12", "40", u64s(r.U64()&0xffff))
	e("gcsimm", "immutable", itoa(r.Pick(1, 50, 300)), u64s(r.U64()&0xffff))
	e("gcsconc", "queries", "200", "16", u64s(r.U64()&0xffff))
	ra := 2
	if tier == "thorough" {
		ra = 10
	}
	for i := 0; i < ra; i++ {
		e("reloadatomic", "reload-vs-update", "4", "3000", u64s(r.U64()&0xffff))
	}
	_ = strings.Join
}
