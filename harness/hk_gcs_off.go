//go:build verif_nohook_gcs

package main

// Stubs used when /repo's verif hooks of package gcs no longer compile against the modified tree:
// the ops that need them report HARNESS:hook-unavailable and only the properties relying on them are affected.
import "github.com/gcash/bchutil/gcs"

func hk_gcs_FastReduction(v, nHi, nLo uint64) uint64 {
	panic("harness: hook gcs.VerifFastReduction unavailable")
}

func hk_gcs_ModulusNP(f *gcs.Filter) uint64 {
	panic("harness: hook gcs.VerifModulusNP unavailable")
}
