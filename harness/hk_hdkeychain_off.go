//go:build verif_nohook_hdkeychain

package main

// Stubs used when /repo's verif hooks of package hdkeychain no longer compile against the modified tree:
// the ops that need them report HARNESS:hook-unavailable and only the properties relying on them are affected.
import "github.com/gcash/bchutil/hdkeychain"

func hk_hdkeychain_Fields(k *hdkeychain.ExtendedKey) (key, pubKey, chainCode, parentFP, version []byte, depth uint8, childNum uint32, isPrivate bool) {
	panic("harness: hook hdkeychain.VerifFields unavailable")
}

func hk_hdkeychain_FieldRanges(k *hdkeychain.ExtendedKey) [5][2]uintptr {
	panic("harness: hook hdkeychain.VerifFieldRanges unavailable")
}
