//go:build !verif_nohook_base58

package main

// Hooks of package base58 (compiled from /repo with -tags verif).
import "github.com/gcash/bchutil/base58"

var (
	hk_base58_Alphabet = base58.VerifAlphabet
	hk_base58_B58      = base58.VerifB58
)
