//go:build verif_nohook_base58

package main

// Stubs used when /repo's verif hooks of package base58 no longer compile against the modified tree:
// the ops that need them report HARNESS:hook-unavailable and only the properties relying on them are affected.

func hk_base58_Alphabet() string {
	panic("harness: hook base58.VerifAlphabet unavailable")
}

func hk_base58_B58() [256]byte {
	panic("harness: hook base58.VerifB58 unavailable")
}
