package main

import (
	"math"
	"math/bits"
	"sort"

	"github.com/gcash/bchutil"
)

func init() { props["C17"] = &Prop{Gen: genC17, Exec: execC17} }

func amtObs(a bchutil.Amount, err error) string {
	if err != nil {
		return "err"
	}
	return "ok:" + i64s(int64(a))
}

func execC17(c Case) string {
	a := c.Args
	switch c.Op {
	case "newamt":
		f := math.Float64frombits(atou(a[0]))
		return amtObs(bchutil.NewAmount(f)) + " " + amtObs(bchutil.NewAmount(-f))
	case "mono":
		return amtObs(bchutil.NewAmount(math.Float64frombits(atou(a[0])))) + " " + amtObs(bchutil.NewAmount(math.Float64frombits(atou(a[1]))))
	case "rt":
		return amtObs(bchutil.NewAmount(bchutil.Amount(atoi64(a[0])).ToBCH())) + " " + u64s(math.Float64bits(bchutil.Amount(atoi64(a[0])).ToBCH()))
	case "tounit":
		return u64s(math.Float64bits(bchutil.Amount(atoi64(a[0])).ToUnit(bchutil.AmountUnit(atoi(a[1])))))
	case "fmt":
		f := bchutil.Amount(atoi64(a[0])).Format(bchutil.AmountUnit(atoi(a[1])))
		if atoi(a[1]) == int(bchutil.AmountBCH) && bchutil.Amount(atoi64(a[0])).String() != f {
			return hs(f) + "!String"
		}
		return hs(f)
	case "mulf":
		return i64s(int64(bchutil.Amount(atoi64(a[0])).MulF64(math.Float64frombits(atou(a[1])))))
	}
	panic("harness: op")
}

func genAmount(r *Rng) int64 {
	const maxSat = 2100000000000000
	var a int64
	switch r.Intn(9) {
	case 0:
		a = int64(r.Intn(3))
	case 1:
		a = maxSat - int64(r.Intn(3))
	case 2:
		p := int64(1)
		for i := 0; i < r.Intn(16); i++ {
			p *= 10
		}
		a = p + int64(r.Intn(3)) - 1
	case 3:
		a = int64(r.U64() % (1 << 53))
		if a > maxSat {
			a %= maxSat
		}
	case 4:
		a = int64(r.U64() % 100000000)
	default:
		a = int64(r.U64() % (maxSat + 1))
	}
	if r.Intn(3) == 0 {
		a = -a
	}
	return a
}

func genC17(r *Rng, tier string, emit func(Case)) {
	e := func(op, cls string, args ...string) { emit(Case{op, cls, args}) }
	n := 800
	if tier == "thorough" {
		n = 40000
	}
	fb := func(f float64) string { return u64s(math.Float64bits(f)) }
	// fixed witnesses of the repaired defects
	e("newamt", "tiehalf", fb(4.999999999999999e-09))
	e("newamt", "odd2p52", fb(45035996.27370497))
	e("tounit", "subsat", "1068211668854925", "-11")
	for _, f := range []float64{0, math.Copysign(0, -1), math.NaN(), math.Inf(1), math.Inf(-1), 5e-324, 1e-9, 5e-9, 0.5e-8, 1.5e-8, 2.5e-8, 21e6, 1e10, 4.6e10, 9.2e10} {
		e("newamt", "special", fb(f))
	}
	// hard-to-round quotients: amounts a for which a / 10^k lies closest to the midpoint of two neighbouring doubles
	// (found by scanning runs of consecutive amounts with exact integer arithmetic, at every decimal magnitude of the
	// quotient). Any way of computing the quotient other than one correctly rounded division (a reciprocal,
	// whole + fraction, two roundings) differs from it on such inputs first.
	const maxSat = 2100000000000000
	runLen := uint64(500000)
	if tier == "thorough" {
		runLen = 4000000
	}
	for k := 1; k <= 18; k++ {
		pow := uint64(1)
		for j := 0; j < k; j++ {
			pow *= 10
		}
		for m := 0; m < 16; m++ {
			lo := pow
			for j := 0; j < m && lo <= maxSat; j++ {
				lo *= 10
			}
			if lo > maxSat/2 {
				break
			}
			hi := lo * 10
			if hi > maxSat {
				hi = maxSat
			}
			if hi-lo <= runLen {
				continue
			}
			a0 := lo + r.U64()%(hi-lo-runLen)
			type cand struct{ a, d uint64 }
			best := []cand{}
			for a := a0; a < a0+runLen; a++ {
				// scale so that the quotient has 53 significant bits: a * 2^s / 10^k in [2^52, 2^53)
				sh := uint(53 - bits.Len64(a/pow))
				h, l := a>>(64-sh), a<<sh
				_, rem := bits.Div64(h%pow, l, pow)
				d := rem - pow/2
				if rem < pow/2 {
					d = pow/2 - rem
				}
				if len(best) < 5 || d < best[len(best)-1].d {
					best = append(best, cand{a, d})
					sort.Slice(best, func(i, j int) bool { return best[i].d < best[j].d })
					if len(best) > 5 {
						best = best[:5]
					}
				}
			}
			for _, c := range best {
				sa := int64(c.a)
				if r.Intn(4) == 0 {
					sa = -sa
				}
				e("tounit", "hardquot:"+itoa(k-8), i64s(sa), itoa(k-8))
				e("fmt", "hardquot:"+itoa(k-8), i64s(sa), itoa(k-8))
			}
		}
	}
	units := []int{6, 3, 0, -3, -6, -8}
	for i := 0; i < n; i++ {
		// k/1e8 and (k+1/2)/1e8 neighbourhoods
		k := int64(r.U64() % (1 << uint(1+r.Intn(52))))
		var f float64
		switch r.Intn(7) {
		case 6: // products with random mantissas in [2^53, 2^62): the integer grid is coarser than 1 there
			f = math.Ldexp(float64(uint64(1)<<52|r.U64()%(1<<52)), 1+r.Intn(9)) / 1e8
			if r.Bool() {
				f = -f
			}
		case 0:
			f = float64(k) / 1e8
		case 1:
			f = (float64(k) + 0.5) / 1e8
		case 2:
			f = math.Float64frombits(r.U64())
		case 3:
			f = float64(k)/1e8 + float64(r.Intn(100))/1e8
		case 4: // products that are odd integers in [2^52, 2^53)
			p := float64(uint64(1)<<52 + r.U64()%(1<<52) | 1)
			f = p / 1e8
		case 5: // binade boundaries
			f = math.Ldexp(1, r.Intn(80)-40)
		}
		for s := 0; s < r.Intn(4); s++ {
			if r.Bool() {
				f = math.Nextafter(f, math.Inf(1))
			} else {
				f = math.Nextafter(f, math.Inf(-1))
			}
		}
		e("newamt", "near", fb(f))
		g := math.Nextafter(f, math.Inf(1))
		if r.Bool() {
			g = f + math.Abs(f)*1e-15
		}
		if !(g < f) {
			e("mono", "pair", fb(f), fb(g))
		}
		a := genAmount(r)
		e("rt", "amt", i64s(a))
		u := units[r.Intn(len(units))]
		if r.Bool() {
			u = r.Intn(25) - 12
		}
		e("tounit", "u", i64s(a), itoa(u))
		e("fmt", "u", i64s(a), itoa(u))
		e("mulf", "rand", i64s(a), fb([]float64{0.5, 1.5, 0.01, 1e-8, f, -2.5, 1 / 3.0}[r.Intn(7)]))
	}
	// "round" amounts m * 10^j (whole coins, whole cents, ... - where a shortcut for amounts without a fraction would
	// apply) in every named unit and as String()
	for j := 0; j <= 15; j++ {
		p := int64(1)
		for k := 0; k < j; k++ {
			p *= 10
		}
		for _, m := range []int64{1, 15, 25, 99, 101, -1, -15, 21} {
			a := m * p
			if a > 2100000000000000 || a < -2100000000000000 {
				continue
			}
			for _, u := range units {
				e("fmt", "round", i64s(a), itoa(u))
				e("tounit", "round", i64s(a), itoa(u))
			}
		}
	}
	// amounts that are multiples of a power of two (2^31, 2^32, 2^40 satoshi: where a 32-bit intermediate wraps to a
	// round value) in the large units and at the ends of the exponent range
	for _, sh := range []uint{31, 32, 33, 40, 50} {
		for _, m := range []int64{1, 3, 5, -1, -7, 977} {
			a := m << sh
			if a > 2100000000000000 || a < -2100000000000000 {
				continue
			}
			for _, u := range []int{-12, -9, -8, 0, 1, 2, 3, 6, 9, 10, 11, 12} {
				e("tounit", "pow2", i64s(a), itoa(u))
				e("fmt", "pow2", i64s(a), itoa(u))
			}
		}
	}
	// MulF64 with whole multipliers of every magnitude (and their neighbours), small amounts so that the product is
	// far from the int64 range
	for _, w := range []float64{0, 1, 2, 3, 255, 256, 65535, 65536, 1<<31 - 1, 1 << 31, 1<<31 + 1, 3e9, 1<<32 - 1, 1 << 32, 1<<32 + 1, 1 << 53, 1e15} {
		for _, a := range []int64{0, 1, 3, -7, 100000000} {
			for _, f := range []float64{w, -w, w + 0.5, w - 0.25} {
				if math.Abs(float64(a)*f) < 4e18 {
					e("mulf", "whole", i64s(a), fb(f))
				}
			}
		}
	}
}
