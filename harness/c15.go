package main

import (
	"sort"
	"strings"
	"unsafe"

	"github.com/gcash/bchutil/hdkeychain"
)

func init() { props["C15"] = &Prop{Gen: genC15, Exec: execC15} }

func readMem(addr uintptr, n uintptr) []byte {
	if addr == 0 || n == 0 {
		return nil
	}
	return unsafe.Slice((*byte)(unsafe.Pointer(addr)), int(n))
}

// fieldRanges: the address ranges of a key's buffers through the verif hook; ok = false when the hook does not compile
// against this tree (stub)
func fieldRanges(k *hdkeychain.ExtendedKey) (r [5][2]uintptr, ok bool) {
	defer func() {
		if e := recover(); e != nil {
			// only the stub of a switched-off hook package panics on purpose; a crash inside a real hook is not masked
			if s, isStr := e.(string); !isStr || !strings.HasPrefix(s, "harness: hook") {
				panic(e)
			}
			ok = false
		}
	}()
	return hk_hdkeychain_FieldRanges(k), true
}

func execC15(c Case) string {
	keys := []*hdkeychain.ExtendedKey{}
	out := []string{}
	for _, op := range splitOr(c.Args[0], ";") {
		t := strings.Split(op, ":")
		res := "."
		add := func(k *hdkeychain.ExtendedKey, err error) {
			if err != nil {
				res = "e:" + hdErr(err)
				return
			}
			for i, o := range keys {
				if o == k {
					res = "k" + itoa(i)
					return
				}
			}
			keys = append(keys, k)
			res = "k" + itoa(len(keys)-1)
		}
		h := func(i int) *hdkeychain.ExtendedKey {
			if atoi(t[i]) >= len(keys) {
				return nil
			}
			return keys[atoi(t[i])]
		}
		zeroOK := ""
		switch t[0] {
		case "M":
			m, err, written := newMasterCallerBuffer(unhx(t[1]), netIdx(t[2]))
			if written {
				res = "SEED-BUFFER-WRITTEN"
			} else {
				add(m, err)
			}
		case "P":
			if k := h(1); k != nil {
				add(hdkeychain.NewKeyFromString(k.String()))
			}
		case "C":
			if k := h(1); k != nil {
				add(k.Child(uint32(atou(t[2]))))
			}
		case "N":
			if k := h(1); k != nil {
				add(k.Neuter())
			}
		case "S":
			if k := h(1); k != nil {
				k.SetNet(netIdx(t[2]))
			}
		case "A":
			if k := h(1); k != nil {
				a, err := k.Address(nets[0])
				if err != nil {
					res = "e:other"
				} else {
					res = "a:" + hs(a.EncodeAddress())
				}
			}
		case "E":
			if k := h(1); k != nil {
				p, err := k.ECPubKey()
				if err != nil {
					res = "e:other"
				} else {
					res = "p:" + hx(p.SerializeCompressed())
				}
			}
		case "V":
			if k := h(1); k != nil {
				p, err := k.ECPrivKey()
				if err != nil {
					res = "e:" + hdErr(err)
				} else {
					res = "v:" + hx(p.Serialize())
				}
			}
		case "Z":
			if k := h(1); k != nil {
				rg, have := fieldRanges(k)
				k.Zero()
				if have {
					ok := true
					for f := 0; f < 4; f++ {
						for _, b := range readMem(rg[f][0], rg[f][1]) {
							if b != 0 {
								ok = false
							}
						}
					}
					zeroOK = b2s(ok)
				}
			}
		}
		// observation of the whole pool
		strs := []string{}
		type rng struct {
			k, f   int
			lo, hi uintptr
		}
		rs := []rng{}
		hookless := false
		for i, k := range keys {
			strs = append(strs, hs(k.String()))
			fr, have := fieldRanges(k)
			if !have {
				hookless = true
				continue
			}
			for f := 0; f < 4; f++ {
				if fr[f][1] > 0 {
					rs = append(rs, rng{i, f, fr[f][0], fr[f][0] + fr[f][1]})
				}
			}
		}
		ov := []string{}
		for x := 0; x < len(rs); x++ {
			for y := 0; y < len(rs); y++ {
				a, b := rs[x], rs[y]
				if (a.k < b.k || (a.k == b.k && a.f < b.f)) && a.lo < b.hi && b.lo < a.hi {
					ov = append(ov, itoa(a.k)+"."+itoa(a.f)+"~"+itoa(b.k)+"."+itoa(b.f))
				}
			}
		}
		sort.Strings(ov)
		o := res + "|" + joinOr(strs, ",") + "|" + joinOr(ov, ",")
		if hookless {
			// without the white-box hook the address ranges are unknown: the black-box part (results, strings of the whole
			// pool after every step) is still observed
			o = res + "|" + joinOr(strs, ",") + "|?"
		}
		if zeroOK != "" {
			o += "|z" + zeroOK
		}
		out = append(out, o)
	}
	return joinOr(out, " ")
}

func genC15(r *Rng, tier string, emit func(Case)) {
	e := func(op, cls string, args ...string) { emit(Case{op, cls, args}) }
	// the repaired defect: neuter then zero the parent
	e("hist", "fixed-neuter-zero", "M:000102030405060708090a0b0c0d0e0f:0;N:0;Z:0;E:1;C:1:0")
	e("hist", "fixed-neuter-zero2", "M:000102030405060708090a0b0c0d0e0f:0;N:0;Z:1;C:0:0;N:0")
	// directed: every kind of key (master, private child, neutered, parsed public, parsed private) is used, zeroed and
	// then used again with every operation: nothing computed before the zeroing may survive it
	nd := 3
	if tier == "thorough" {
		nd = 40
	}
	for i := 0; i < nd; i++ {
		for kind := 0; kind < 5; kind++ {
			ops := []string{"M:" + hx(r.Bytes(16+r.Intn(20))) + ":" + itoa(r.Intn(len(nets)))}
			k := "0"
			switch kind {
			case 1:
				ops, k = append(ops, "C:0:"+u64s(uint64(r.Pick(0, 1, 1<<31)))), "1"
			case 2:
				ops, k = append(ops, "N:0"), "1"
			case 3:
				ops, k = append(ops, "N:0", "P:1"), "2"
			case 4:
				ops, k = append(ops, "P:0"), "1"
			}
			use := []string{"C:" + k + ":0", "C:" + k + ":2147483648", "N:" + k, "E:" + k, "A:" + k, "V:" + k, "P:" + k, "C:" + k + ":" + u64s(uint64(r.Intn(5)))}
			for _, j := range r.Perm(len(use))[:1+r.Intn(len(use))] {
				ops = append(ops, use[j])
			}
			ops = append(ops, "Z:"+k)
			for _, j := range r.Perm(len(use)) {
				ops = append(ops, use[j])
			}
			e("hist", "use-zero-use:"+itoa(kind), strings.Join(ops, ";"))
		}
	}
	n := 150
	if tier == "thorough" {
		n = 4000
	}
	for i := 0; i < n; i++ {
		ops := []string{"M:" + hx(r.Bytes(16+r.Intn(20))) + ":" + itoa(r.Intn(len(nets)))}
		nk := 1
		steps := 1 + r.Intn(14)
		if tier == "thorough" {
			steps = 1 + r.Intn(40)
		}
		for j := 0; j < steps && nk < 9; j++ {
			h := itoa(r.Intn(nk))
			switch k := r.Intn(16); {
			case k < 4:
				idx := uint64(r.Pick(0, 1, 5, 1<<31, 1<<31+1))
				ops = append(ops, "C:"+h+":"+u64s(idx))
				nk++
			case k < 7:
				ops = append(ops, "N:"+h)
				nk++
			case k < 10:
				ops = append(ops, "Z:"+h)
			case k == 10:
				ops = append(ops, "P:"+h)
				nk++
			case k == 11:
				ops = append(ops, "S:"+h+":"+itoa(r.Intn(len(nets))))
			case k == 12:
				ops = append(ops, "A:"+h)
			case k == 13:
				ops = append(ops, "E:"+h)
			case k == 14:
				ops = append(ops, "V:"+h)
			default:
				ops = append(ops, "M:"+hx(r.Bytes(16))+":"+itoa(r.Intn(len(nets))))
				nk++
			}
		}
		e("hist", "rand", strings.Join(ops, ";"))
	}
}
