package main

import (
	"bytes"
	"encoding/binary"
	"math/bits"
	"strings"

	"github.com/aead/siphash"
	"github.com/gcash/bchd/wire"
	"github.com/gcash/bchutil/gcs"
	"github.com/gcash/bchutil/gcs/builder"
)

func init() {
	props["C13"] = &Prop{Gen: genC13, Exec: execGcs}
	props["C14"] = &Prop{Gen: genC14, Exec: execGcs}
}

// items: comma separated tokens, each hex or seq:<count>:<salt> (8-byte LE of salt+i)
func expandItems(s string) [][]byte {
	out := [][]byte{}
	if s == "-" {
		return out
	}
	for _, t := range strings.Split(s, ",") {
		if strings.HasPrefix(t, "seq:") {
			f := strings.Split(t, ":")
			c, salt := atoi(f[1]), atou(f[2])
			for i := 0; i < c; i++ {
				b := make([]byte, 8)
				binary.LittleEndian.PutUint64(b, salt+uint64(i))
				out = append(out, b)
			}
		} else if t == "e" {
			out = append(out, []byte{})
		} else {
			out = append(out, unhx(t))
		}
	}
	return out
}

// scribble overwrites a buffer that was handed to the code under test and is now reused by its owner
func scribble(b []byte) {
	for i := range b {
		b[i] ^= 0xa5
	}
}

func gkey(s string) [gcs.KeySize]byte {
	var k [gcs.KeySize]byte
	copy(k[:], unhx(s))
	return k
}

func gcsErr(err error) string {
	switch err {
	case gcs.ErrPTooBig:
		return "err:ptoobig"
	case gcs.ErrNTooBig:
		return "err:ntoobig"
	}
	return "err:other" // unnamed errors (p/m not set, CompactSize errors): message texts are never compared
}

func bOr(b bool, err error) string {
	if err != nil {
		return "E"
	}
	return b2s(b)
}

func queryObs(f *gcs.Filter, key [gcs.KeySize]byte, queries string) string {
	if queries == "_" {
		return ""
	}
	out := ""
	for _, q := range strings.Split(queries, ";") {
		items := expandItems(q)
		cnt := 0
		per := make([]byte, 0, len(items)) // one answer per item: 1 / 0 / E, so that a miss and a false hit cannot cancel
		for _, it := range items {
			m, err := f.Match(key, it)
			switch {
			case err != nil:
				per = append(per, 'E')
			case m:
				cnt++
				per = append(per, '1')
			default:
				per = append(per, '0')
			}
		}
		out += " " + itoa(cnt) + "." + string(per) + "/" + bOr(f.ZipMatchAny(key, items)) + "/" + bOr(f.HashMatchAny(key, items)) + "/" + bOr(f.MatchAny(key, items))
	}
	return out
}

func filterObs(f *gcs.Filter) string {
	b, _ := f.Bytes()
	return u64s(uint64(f.N())) + " " + itoa(int(f.P())) + " " + hx(b)
}

func execGcs(c Case) string {
	a := c.Args
	switch c.Op {
	case "fr":
		return u64s(hk_gcs_FastReduction(atou(a[0]), atou(a[1]), atou(a[2])))
	case "sip":
		k := gkey(a[0])
		return u64s(siphash.Sum64(unhx(a[1]), &k))
	case "gcs": // gcs <key> <P> <M> <data> <queries>
		key := gkey(a[0])
		P, M := uint8(atoi(a[1])), atou(a[2])
		data := expandItems(a[3])
		f, err := gcs.BuildGCSFilter(P, M, key, data)
		for _, d := range data {
			scribble(d)
		}
		if err != nil {
			return gcsErr(err)
		}
		nb, _ := f.NBytes()
		pb, _ := f.PBytes()
		npb, _ := f.NPBytes()
		out := filterObs(f) + " " + hx(nb) + " " + hx(pb) + " " + hx(npb)
		// what the accessors hand out is the caller's: overwrite it, the filter must answer as before
		raw, _ := f.Bytes()
		nb = append([]byte{}, nb...)
		for _, o := range [][]byte{raw, pb, npb} {
			scribble(o)
		}
		nb0, _ := f.NBytes()
		scribble(nb0)
		out += queryObs(f, key, a[4])
		// rebuilt from the serialisations
		f2, err := gcs.FromNBytes(P, M, nb)
		scribble(nb) // the caller's buffer is reused (a network read buffer): the rebuilt filter must not notice
		if err != nil {
			return out + " R " + gcsErr(err)
		}
		out += " R " + filterObs(f2) + queryObs(f2, key, a[4])
		bb, _ := f.Bytes()
		bb = append([]byte{}, bb...)
		f3, err := gcs.FromBytes(f.N(), P, M, bb)
		scribble(bb)
		if err != nil {
			return out + " R " + gcsErr(err)
		}
		return out + " R " + filterObs(f3) + queryObs(f3, key, a[4])
	case "gcsraw": // gcsraw <key> <P> <M> <N|-> <bytes> <queries>
		key := gkey(a[0])
		P, M := uint8(atoi(a[1])), atou(a[2])
		var f *gcs.Filter
		var err error
		in := unhx(a[4])
		if a[3] == "-" {
			f, err = gcs.FromNBytes(P, M, in)
		} else {
			f, err = gcs.FromBytes(uint32(atou(a[3])), P, M, in)
		}
		scribble(in)
		if err != nil {
			return gcsErr(err)
		}
		return filterObs(f) + queryObs(f, key, a[5])
	case "bld": // bld <ops>
		b := (&builder.GCSBuilder{}).Preallocate(0)
		for _, op := range splitOr(a[0], ";") {
			t := strings.Split(op, ":")
			switch t[0] {
			case "k":
				b.SetKey(gkey(t[1]))
			case "p":
				b.SetP(uint8(atoi(t[1])))
			case "m":
				b.SetM(atou(t[1]))
			case "a":
				b.AddEntry(unhx(t[1]))
			case "h":
				b.SetKeyFromHash(mkHash(unhx(t[1])))
			case "H": // AddHash: the 32 bytes of the hash are the entry
				b.AddHash(mkHash(unhx(t[1])))
			case "P": // Preallocate in the middle of a chain must not lose what was added
				b.Preallocate(uint32(atou(t[1])))
			case "A": // AddEntries
				b.AddEntries(expandItems(t[1]))
			case "w": // w:<ctor>:<key or hash>:<p>:<n>:<m>  one of the With* constructors (a fresh builder)
				kk, P, N, M := unhx(t[2]), uint8(atoi(t[3])), uint32(atou(t[4])), atou(t[5])
				switch t[1] {
				case "kpnm":
					b = builder.WithKeyPNM(gkey(t[2]), P, N, M)
				case "kpm":
					b = builder.WithKeyPM(gkey(t[2]), P, M)
				case "k":
					b = builder.WithKey(gkey(t[2]))
				case "hpnm":
					b = builder.WithKeyHashPNM(mkHash(kk), P, N, M)
				case "hpm":
					b = builder.WithKeyHashPM(mkHash(kk), P, M)
				case "h":
					b = builder.WithKeyHash(mkHash(kk))
				}
			}
		}
		k, kerr := b.Key()
		ks := hx(k[:])
		if kerr != nil {
			ks = gcsErr(kerr)
		}
		f, err := b.Build()
		if err != nil {
			return ks + " " + gcsErr(err)
		}
		obs := filterObs(f)
		// Build does not consume the builder: a second Build gives the same filter, and the first one is still what it was
		if f2, err2 := b.Build(); err2 != nil || filterObs(f2) != obs || filterObs(f) != obs {
			return ks + " " + obs + " SECOND-BUILD-DIFFERS"
		}
		return ks + " " + obs
	case "bldrand": // bldrand <variant> <p> <n> <m> <items>: a builder with a random key behaves like the builder given that key
		P, N, M := uint8(atoi(a[1])), uint32(atou(a[2])), atou(a[3])
		var b *builder.GCSBuilder
		switch a[0] {
		case "pnm":
			b = builder.WithRandomKeyPNM(P, N, M)
		case "pm":
			b = builder.WithRandomKeyPM(P, M)
		default:
			b = builder.WithRandomKey()
			P, M = builder.DefaultP, builder.DefaultM
		}
		k1, _ := b.Key()
		k2, err2 := builder.RandomKey()
		items := expandItems(a[4])
		f1, e1 := b.AddEntries(items).Build()
		f2, e2 := builder.WithKeyPNM(k1, P, 0, M).AddEntries(items).Build()
		if (e1 == nil) != (e2 == nil) {
			return "builders disagree on the error"
		}
		if e1 != nil {
			return "err"
		}
		b1, _ := f1.NBytes()
		b2, _ := f2.NBytes()
		members := 0
		for _, it := range items {
			if m, _ := f1.Match(k1, it); m {
				members++
			}
		}
		// the random key and the resulting bytes go to the model, which rebuilds the filter with that key
		return b2s(bytes.Equal(b1, b2)) + " " + b2s(err2 == nil && k1 != k2) + " " + itoa(members) + "/" + itoa(len(items)) + " " + hx(k1[:]) + " " + hx(b1)
	case "basic": // basic <txs> <prevheader>
		blk := wire.NewMsgBlock(&wire.BlockHeader{Nonce: uint32(len(a[0]))})
		txs := []*wire.MsgTx{}
		if a[0] != "-" {
			for _, ts := range strings.Split(a[0], "|") {
				t := parseTx(ts)
				blk.AddTransaction(t)
				txs = append(txs, t)
			}
		}
		bh := blk.BlockHash()
		res := []string{}
		f, err := builder.BuildBasicFilter(blk)
		if err != nil {
			res = append(res, gcsErr(err))
		} else {
			fh, _ := builder.GetFilterHash(f)
			hd, _ := builder.MakeHeaderForFilter(f, *mkHash(unhx(a[1])))
			res = append(res, filterObs(f), hx(fh[:]), hx(hd[:]))
		}
		// the caller's list has spare capacity (collected with append) and is used again afterwards: the builder
		// writes to no memory of its caller, and a second call on the same list gives the same filter
		txs = append(make([]*wire.MsgTx, 0, len(txs)+4), txs...)
		spare := txs[:cap(txs)]
		keep := append([]*wire.MsgTx{}, spare...)
		mf, err := builder.BuildMempoolFilter(txs)
		if err != nil {
			res = append(res, gcsErr(err))
		} else {
			res = append(res, filterObs(mf))
		}
		for i := range spare {
			if spare[i] != keep[i] {
				res = append(res, "MEMPOOL-ARGUMENT-WRITTEN")
				break
			}
		}
		if mf2, err2 := builder.BuildMempoolFilter(txs); (err2 == nil) != (err == nil) || (err == nil && filterObs(mf2) != filterObs(mf)) {
			res = append(res, "MEMPOOL-SECOND-CALL-DIFFERS")
		}
		dk := builder.DeriveKey(&bh)
		return "EXT " + hx(bh[:]) + " RES " + hx(dk[:]) + " " + strings.Join(res, " ")
	}
	panic("harness: op " + c.Op)
}

func genItems(r *Rng, n int) string {
	if n == 0 {
		return "-"
	}
	if n > 40 {
		return "seq:" + itoa(n) + ":" + u64s(r.U64()&0xffffffff)
	}
	t := []string{}
	for i := 0; i < n; i++ {
		switch r.Intn(8) {
		case 0:
			t = append(t, "e")
		case 1:
			if len(t) > 0 {
				t = append(t, t[r.Intn(len(t))]) // duplicate
				continue
			}
			fallthrough
		default:
			t = append(t, hx(r.Bytes(1+r.Intn(40))))
		}
	}
	return strings.Join(t, ",")
}

func pickM(r *Rng, P int) uint64 {
	ms := []uint64{1, 2, 784931, 1 << 20, 1<<32 - 1, 1 << 33, 1 << 40}
	for tries := 0; tries < 20; tries++ {
		m := ms[r.Intn(len(ms))]
		if m>>uint(P) <= 1<<8 {
			return m
		}
	}
	return uint64(1) << uint(P)
}

func genQueries(r *Rng, data string, n int) string {
	items := strings.Split(data, ",")
	qs := []string{}
	for k := 0; k < 3+r.Intn(3); k++ {
		switch r.Intn(7) {
		case 0:
			qs = append(qs, "-")
		case 1: // members only
			if data != "-" {
				t := []string{}
				for j := 0; j < 1+r.Intn(4); j++ {
					it := items[r.Intn(len(items))]
					if strings.HasPrefix(it, "seq:") {
						f := strings.Split(it, ":")
						b := make([]byte, 8)
						binary.LittleEndian.PutUint64(b, atou(f[2])+uint64(r.Intn(atoi(f[1]))))
						it = hx(b)
					}
					t = append(t, it)
				}
				qs = append(qs, strings.Join(t, ","))
			} else {
				qs = append(qs, hx(r.Bytes(4)))
			}
		case 2: // non-members
			qs = append(qs, genItems(r, 1+r.Intn(5)))
		case 3: // size around N/2 (strategy switch), non-members
			sz := n/2 + r.Pick(-1, 0, 1)
			if sz < 0 {
				sz = 0
			}
			if sz > 3000 || n > 6000 {
				sz = 40
			}
			if sz == 0 {
				qs = append(qs, "-")
			} else {
				qs = append(qs, "seq:"+itoa(sz)+":"+u64s(1<<40+r.U64()&0xffff))
			}
		case 4: // mixed with a member at the end
			if data != "-" {
				it := items[0]
				if strings.HasPrefix(it, "seq:") {
					f := strings.Split(it, ":")
					b := make([]byte, 8)
					binary.LittleEndian.PutUint64(b, atou(f[2]))
					it = hx(b)
				}
				qs = append(qs, genItems(r, 2+r.Intn(3))+","+it)
			} else {
				qs = append(qs, "e")
			}
		case 5: // duplicates in the query
			x := hx(r.Bytes(6))
			qs = append(qs, x+","+x)
		default:
			qs = append(qs, genItems(r, 1+r.Intn(30)))
		}
	}
	return strings.Join(qs, ";")
}

func genC13(r *Rng, tier string, emit func(Case)) {
	e := func(op, cls string, args ...string) { emit(Case{op, cls, args}) }
	n := 150
	if tier == "thorough" {
		n = 3000
	}
	for P := 0; P <= 33; P++ { // all P incl. the rejected 33
		key := hx(r.Bytes(16))
		M := pickM(r, P)
		N := r.Pick(0, 1, 2, 3, 17, 100)
		d := genItems(r, N)
		e("gcs", "allP", key, itoa(P), u64s(M), d, genQueries(r, d, N))
	}
	// degenerate ranges: N*M = 0 as a 64-bit number (M = 0, or N*M wrapping to exactly 2^64): every value reduces to 0,
	// so every item is reported present by every strategy; and M = 1 (range N)
	for _, nm := range [][2]uint64{{1, 0}, {2, 0}, {5, 0}, {2, 1 << 63}, {4, 1 << 62}, {16, 1 << 60}, {3, 1}, {1, 1}} {
		for _, P := range []int{0, 1, 19, 32} {
			d := genItems(r, int(nm[0]))
			e("gcs", "modzero", hx(r.Bytes(16)), itoa(P), u64s(nm[1]), d, d+";"+genQueries(r, d, int(nm[0])))
		}
	}
	// tiny sets whose range N*M exceeds 2^P: the first value or a gap can need the maximal unary run floor(N*M/2^P)
	for i := 0; i < 60; i++ {
		P := r.Pick(19, 19, 10, 5, 1, 16)
		M := uint64(784931)
		if P != 19 {
			// M between 2^P and 8*2^P and NOT a multiple of 2^P, so that the top bucket of the range is partial
			// M between 1.5*2^P and 2*2^P: with N = 1 the top (partial) bucket [2^P, M) holds a third to a half of the range
			M = uint64(1)<<uint(P) + uint64(1)<<uint(P-1) + r.U64()%(uint64(1)<<uint(P-1))
		}
		N := r.Pick(1, 1, 1, 2, 3)
		d := genItems(r, N)
		e("gcs", "tiny", hx(r.Bytes(16)), itoa(P), u64s(M), d, d+";"+genQueries(r, d, N))
	}
	for i := 0; i < n; i++ {
		P := r.Intn(33)
		M := pickM(r, P)
		N := r.Pick(0, 1, 2, 3, 5, 20, 100, 700)
		if r.Intn(25) == 0 {
			N = r.Pick(5472, 5473, 3000)
		}
		d := genItems(r, N)
		e("gcs", "rand", hx(r.Bytes(16)), itoa(P), u64s(M), d, genQueries(r, d, N))
	}
	// directed search: a query that collides with a member in the low 32 bits only (regression for 8237c21)
	dirs := 2
	if tier == "thorough" {
		dirs = 10
	}
	for k := 0; k < dirs; k++ {
		var key [16]byte
		copy(key[:], r.Bytes(16))
		const N = 3000
		M := uint64(1) << 33
		modNP := uint64(N) * M
		salt := r.U64() & 0xffffff
		low := map[uint32]uint64{}
		for i := 0; i < N; i++ {
			b := make([]byte, 8)
			binary.LittleEndian.PutUint64(b, salt+uint64(i))
			v, _ := bits.Mul64(siphash.Sum64(b, &key), modNP) // floor(h*NM/2^64): the specified mapping, independent of /repo
			low[uint32(v)] = v
		}
		for q := uint64(1 << 50); q < 1<<50+20000000; q++ {
			b := make([]byte, 8)
			binary.LittleEndian.PutUint64(b, q)
			v, _ := bits.Mul64(siphash.Sum64(b, &key), modNP) // floor(h*NM/2^64): the specified mapping, independent of /repo
			if full, ok := low[uint32(v)]; ok && full != v {
				e("gcs", "low32collision", hx(key[:]), "32", u64s(M), "seq:"+itoa(N)+":"+u64s(salt), hx(b)+";"+"seq:1600:"+u64s(q-800))
				break
			}
		}
	}
	if tier == "thorough" {
		for _, N := range []int{10000, 100000} {
			d := genItems(r, N)
			e("gcs", "big", hx(r.Bytes(16)), "19", "784931", d, genQueries(r, d, N))
		}
	}
}

func genC14(r *Rng, tier string, emit func(Case)) {
	e := func(op, cls string, args ...string) { emit(Case{op, cls, args}) }
	n := 150
	if tier == "thorough" {
		n = 3000
	}
	for i := 0; i < n; i++ {
		// fastReduction with operands that exercise the carry term
		v, hi, lo := r.U64(), r.U64()&0xffffffff, r.U64()&0xffffffff
		switch r.Intn(4) {
		case 0:
			v |= 0xffffffff00000000
			lo |= 0xf0000000
		case 1:
			v = 0xffffffffffffffff
			hi, lo = 0xffffffff, 0xffffffff
		case 2:
			hi = 0
		}
		e("fr", "rand", u64s(v), u64s(hi), u64s(lo))
		e("sip", "rand", hx(r.Bytes(16)), hx(r.Bytes(r.Intn(40))))
		// build + serialisations (shared with C13 format)
		P := r.Intn(33)
		M := pickM(r, P)
		N := r.Pick(0, 1, 2, 3, 5, 20, 100, 252, 253, 254, 300)
		if r.Intn(60) == 0 {
			N = r.Pick(5472, 5473, 70000)
			P, M = 19, 784931
		}
		d := genItems(r, N)
		e("gcs", "ser", hx(r.Bytes(16)), itoa(P), u64s(M), d, genQueries(r, d, N))
		// raw serialised filters: canonical / non-canonical / truncated CompactSize, arbitrary bytes
		raw := r.Bytes(r.Intn(30))
		var pre []byte
		switch r.Intn(8) {
		case 0:
			pre = []byte{byte(r.Intn(0xfd))}
		case 1:
			pre = []byte{0xfd, byte(r.Intn(256)), byte(r.Intn(2))} // may be non-canonical
		case 2:
			pre = []byte{0xfe, 1, 0, 0, 0} // non-canonical
		case 3:
			pre = []byte{0xfe, 0xff, 0xff, 0xff, 0xff} // N = 2^32-1
		case 4:
			pre = []byte{0xff, 0, 0, 0, 0, 1, 0, 0, 0} // N = 2^32: too big
		case 5:
			pre = []byte{0xff, 1, 2} // truncated
		case 6:
			pre = []byte{0xfd}
		default:
			pre = []byte{}
		}
		q := genItems(r, 1+r.Intn(4)) + ";" + "seq:" + itoa(r.Pick(1, 5, 40)) + ":7"
		e("gcsraw", "nbytes", hx(r.Bytes(16)), itoa(r.Intn(34)), u64s(pickM(r, 8)), "-", hx(append(pre, raw...)), q)
		e("gcsraw", "bytes", hx(r.Bytes(16)), itoa(r.Intn(34)), u64s(pickM(r, 8)), u64s(uint64(r.Pick(0, 1, 2, 10, 4294967295, 1000))), hx(raw), q)
		// builder chains with error latch; a third of them start from one of the With* constructors
		ops := []string{}
		if r.Intn(3) == 0 {
			ct := []string{"kpnm", "kpm", "k", "hpnm", "hpm", "h"}[r.Intn(6)]
			kl := 16
			if ct[0] == 'h' {
				kl = 32
			}
			ops = append(ops, "w:"+ct+":"+hx(r.Bytes(kl))+":"+itoa(r.Pick(0, 1, 19, 20, 32, 33))+":"+itoa(r.Pick(0, 1, 100))+":"+
				u64s(uint64(r.Pick(0, 1, 784931, 4294967295))+uint64(r.Intn(2))))
		}
		for j := 0; j < r.Intn(8); j++ {
			switch r.Intn(6) {
			case 0:
				ops = append(ops, "k:"+hx(r.Bytes(16)))
			case 1:
				ops = append(ops, "p:"+itoa(r.Pick(0, 1, 19, 32, 33, 200)))
			case 2:
				ops = append(ops, "m:"+u64s(uint64(r.Pick(0, 1, 784931, 4294967295))+uint64(r.Intn(2))))
			case 3:
				ops = append(ops, "h:"+hx(r.Bytes(32)))
			case 4:
				ops = append(ops, "A:"+hx(r.Bytes(1+r.Intn(2)))+","+hx(r.Bytes(1+r.Intn(3))))
				if r.Intn(3) == 0 {
					ops = append(ops, "H:"+hx(r.Bytes(32)))
				}
				if r.Bool() {
					ops = append(ops, "P:"+itoa(r.Pick(0, 1, 100)))
				}
			default:
				it := r.Bytes(1 + r.Intn(3))
				ops = append(ops, "a:"+hx(it))
			}
		}
		// keep the unary runs short (the property bounds M/2^P): simulate the latch-free part of the chain and, if the
		// final parameters would give quotients above 2^10, finish the chain with p:32
		{
			cp, cm := uint64(0), uint64(0)
			for _, op := range ops {
				var v uint64
				if len(op) > 2 {
					v = atouSafe(op[2:])
				}
				if op[0] == 'w' {
					f := strings.Split(op, ":")
					wp, wm := atouSafe(f[3]), atouSafe(f[5])
					if f[1] == "k" || f[1] == "h" {
						wp, wm = 19, 784931
					}
					// the constructor chain is SetKey.SetP.SetM on a fresh builder: an illegal p latches the error
					if wp <= 32 {
						cp = wp
						if wm <= 4294967295 {
							cm = wm
						}
					}
					continue
				}
				switch op[0] {
				case 'p':
					if v <= 32 {
						cp = v
					}
				case 'm':
					if v <= 4294967295 {
						cm = v
					}
				}
			}
			if cp > 0 && cm>>cp > 1024 {
				ops = append(ops, "p:32")
			}
		}
		e("bld", "chain", joinOr(ops, ";"))
		if i%10 == 0 {
			e("bldrand", "randomkey", []string{"pnm", "pm", "default"}[r.Intn(3)], itoa(r.Pick(1, 19, 20, 32, 33, 0)), itoa(r.Intn(50)), u64s(uint64(r.Pick(1, 784931, 1<<20, 0))), genItems(r, 1+r.Intn(6)))
		}
		// block filters
		g := &genCtx{r: r}
		txs := g.genBlock(r.Intn(8), r.Intn(3))
		e("basic", "block", fmtTxs(txs), hx(r.Bytes(32)))
		// a non-coinbase transaction (position > 0) that spends the null outpoint 00..00:ffffffff, or an outpoint with
		// a zero hash and another index: only position 0 is skipped as coinbase
		if i%10 == 1 && len(txs) >= 1 {
			odd := wire.NewMsgTx(1)
			odd.AddTxIn(wire.NewTxIn(&wire.OutPoint{Index: uint32(r.Pick(0xffffffff, 0xffffffff, 0, 1))}, pushOnly(r.Bytes(20))))
			odd.AddTxIn(wire.NewTxIn(&wire.OutPoint{Hash: *mkHash(r.Bytes(32)), Index: 0xffffffff}, pushOnly(r.Bytes(20))))
			odd.AddTxOut(wire.NewTxOut(int64(0), p2pkh(r.Bytes(20)), wire.TokenData{}))
			e("basic", "nulloutpoint", fmtTxs(append(append([]*wire.MsgTx{}, txs...), odd)), hx(r.Bytes(32)))
			e("basic", "nulloutpoint", fmtTxs(append([]*wire.MsgTx{odd}, txs...)), hx(r.Bytes(32)))
		}
	}
}

func atouSafe(s string) uint64 {
	var v uint64
	for _, c := range []byte(s) {
		if c < '0' || c > '9' {
			return 0
		}
		v = v*10 + uint64(c-'0')
	}
	return v
}
