// Correspondence harness: runs observation scripts against the real gcash/bchutil code.
//
//	harness gen <ID> <seed> <tier>      generate cases for property ID, execute them, print lines
//	harness replay <ID> <file>          re-execute the case lines of <file> (text before " => ")
//
// Line protocol:  <ID> <op> <class> <arg>... => <observation>
package main

import (
	"bufio"
	"encoding/hex"
	"fmt"
	"os"
	"runtime/debug"
	"sort"
	"strconv"
	"strings"
)

type Case struct {
	Op   string
	Cls  string
	Args []string
}

type Prop struct {
	Gen  func(r *Rng, tier string, emit func(Case))
	Exec func(c Case) string
}

var props = map[string]*Prop{}

// ---- rng: splitmix64, everything derives from VERIF_SEED and the property id

type Rng struct{ s uint64 }

func NewRng(seed uint64, id string) *Rng {
	r := &Rng{s: seed*0x9E3779B97F4A7C15 + 0x1234567}
	for _, c := range []byte(id) {
		r.s = r.s*31 + uint64(c)
	}
	r.U64()
	return r
}
func (r *Rng) U64() uint64 {
	r.s += 0x9E3779B97F4A7C15
	z := r.s
	z = (z ^ (z >> 30)) * 0xBF58476D1CE4E5B9
	z = (z ^ (z >> 27)) * 0x94D049BB133111EB
	return z ^ (z >> 31)
}
func (r *Rng) Intn(n int) int {
	if n <= 0 {
		return 0
	}
	return int(r.U64() % uint64(n))
}
func (r *Rng) Bool() bool { return r.U64()&1 == 1 }
func (r *Rng) Bytes(n int) []byte {
	b := make([]byte, n)
	for i := range b {
		b[i] = byte(r.U64())
	}
	return b
}
func (r *Rng) Pick(xs ...int) int { return xs[r.Intn(len(xs))] }

// Perm: a random permutation of 0..n-1 (Fisher-Yates)
func (r *Rng) Perm(n int) []int {
	p := make([]int, n)
	for i := range p {
		p[i] = i
	}
	for i := n - 1; i > 0; i-- {
		j := r.Intn(i + 1)
		p[i], p[j] = p[j], p[i]
	}
	return p
}

// ---- token helpers

func hx(b []byte) string {
	if len(b) == 0 {
		return "-"
	}
	return hex.EncodeToString(b)
}
func hs(s string) string { return hx([]byte(s)) }
func unhx(s string) []byte {
	if s == "-" {
		return []byte{}
	}
	b, err := hex.DecodeString(s)
	if err != nil {
		panic("bad hex token " + s)
	}
	return b
}
func itoa(i int) string     { return strconv.Itoa(i) }
func u64s(i uint64) string  { return strconv.FormatUint(i, 10) }
func i64s(i int64) string   { return strconv.FormatInt(i, 10) }
func atoi(s string) int     { i, err := strconv.Atoi(s); must(err); return i }
func atou(s string) uint64  { i, err := strconv.ParseUint(s, 10, 64); must(err); return i }
func atoi64(s string) int64 { i, err := strconv.ParseInt(s, 10, 64); must(err); return i }
func b2s(b bool) string {
	if b {
		return "1"
	}
	return "0"
}
func must(err error) {
	if err != nil {
		panic(err)
	}
}
func joinOr(xs []string, sep string) string {
	if len(xs) == 0 {
		return "-"
	}
	return strings.Join(xs, sep)
}
func splitOr(s, sep string) []string {
	if s == "-" {
		return nil
	}
	return strings.Split(s, sep)
}

// utf8Variant replaces one character c of s by a multi-byte UTF-8 rune whose code point has c as its low byte
// (U+01cc, U+21cc, U+1F0cc): code that ranges over a string rune-wise and truncates to a byte confuses it with c.
func utf8Variant(r *Rng, s string) string {
	if len(s) == 0 {
		return s
	}
	// half of the time: a rune that Unicode case mapping folds to an ASCII letter of the string
	// (KELVIN SIGN -> k, LATIN CAPITAL I WITH DOT ABOVE -> i, DOTLESS I -> I, LONG S -> S), in the string as is,
	// upper-cased or lower-cased, so that a parser normalising case before validating is exposed
	if r.Intn(2) == 0 {
		t := s
		switch r.Intn(3) {
		case 0:
			t = strings.ToUpper(s)
		case 1:
			t = strings.ToLower(s)
		}
		pos := []int{}
		for i := 0; i < len(t); i++ {
			if strings.IndexByte("KkIiSs", t[i]) >= 0 {
				pos = append(pos, i)
			}
		}
		if len(pos) > 0 {
			k := pos[r.Intn(len(pos))]
			var cp rune
			switch t[k] {
			case 'K', 'k':
				cp = 0x212A
			case 'I', 'i':
				cp = rune(r.Pick(0x130, 0x131))
			default:
				cp = 0x17F
			}
			return t[:k] + string(cp) + t[k+1:]
		}
	}
	k := r.Intn(len(s))
	cp := rune([]int{0x100, 0x2100, 0x1f000, 0x300}[r.Intn(4)]) | rune(s[k])
	return s[:k] + string(cp) + s[k+1:]
}

// safeExec runs the observation script; a panic in the code under test becomes an observation.
func safeExec(p *Prop, c Case) (obs string) {
	defer func() {
		if e := recover(); e != nil {
			msg := fmt.Sprint(e)
			cls := "other"
			switch {
			case strings.Contains(msg, "slice bounds out of range"):
				cls = "sliceOOB"
			case strings.Contains(msg, "index out of range"):
				cls = "indexOOB"
			case strings.Contains(msg, "divide by zero"):
				cls = "divZero"
			case strings.Contains(msg, "interface conversion"):
				cls = "badAssert"
			case strings.Contains(msg, "nil pointer"):
				cls = "nilDeref"
			case strings.Contains(msg, "harness: hook"):
				// a white-box op whose verif hook does not compile against this tree: not an observation of the code
				obs = "SKIP:hook-unavailable"
				return
			case strings.Contains(msg, "bad hex token"), strings.Contains(msg, "harness:"):
				cls = "HARNESS:" + strings.ReplaceAll(msg, " ", "_")
			}
			if os.Getenv("VERIF_TRACE") != "" {
				fmt.Fprintf(os.Stderr, "panic: %v\n%s\n", e, debug.Stack())
			}
			obs = "PANIC:" + cls
		}
	}()
	return p.Exec(c)
}

func line(id string, c Case, obs string) string {
	cls := c.Cls
	if cls == "" {
		cls = "_"
	}
	return id + " " + c.Op + " " + cls + " " + strings.Join(c.Args, " ") + " => " + obs
}

func main() {
	if len(os.Args) < 3 {
		fmt.Fprintln(os.Stderr, "usage: harness gen <ID> <seed> <tier> | replay <ID> <file> | facts")
		os.Exit(2)
	}
	out := bufio.NewWriterSize(os.Stdout, 1<<16)
	defer out.Flush()
	switch os.Args[1] {
	case "facts":
		emitFacts(out)
		return
	case "list":
		ids := []string{}
		for k := range props {
			ids = append(ids, k)
		}
		sort.Strings(ids)
		fmt.Fprintln(out, strings.Join(ids, " "))
		return
	}
	id := os.Args[2]
	p := props[id]
	if p == nil {
		fmt.Fprintln(os.Stderr, "unknown property", id)
		os.Exit(2)
	}
	switch os.Args[1] {
	case "gen":
		seed, _ := strconv.ParseUint(os.Args[3], 10, 64)
		tier := os.Args[4]
		r := NewRng(seed, id)
		p.Gen(r, tier, func(c Case) {
			fmt.Fprintln(out, line(id, c, safeExec(p, c)))
		})
	case "replay":
		f, err := os.Open(os.Args[3])
		must(err)
		sc := bufio.NewScanner(f)
		sc.Buffer(make([]byte, 1<<20), 1<<28)
		for sc.Scan() {
			l := sc.Text()
			if l == "" || strings.HasPrefix(l, "#") {
				continue
			}
			if i := strings.Index(l, " => "); i >= 0 {
				l = l[:i]
			}
			tok := strings.Split(l, " ")
			// a replay file may hold cases of streams shared with other properties: each line names its own stream
			lp, ok := props[tok[0]]
			if len(tok) < 3 || !ok {
				fmt.Fprintln(os.Stderr, "harness: replay line with an unknown stream or too few tokens: "+l)
				os.Exit(3)
			}
			c := Case{Op: tok[1], Cls: tok[2], Args: tok[3:]}
			fmt.Fprintln(out, line(tok[0], c, safeExec(lp, c)))
		}
	}
}
