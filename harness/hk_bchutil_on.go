//go:build !verif_nohook_bchutil

package main

// Hooks of package bchutil (compiled from /repo with -tags verif).
import "github.com/gcash/bchutil"

var (
	hk_bchutil_PolyMod                = bchutil.VerifPolyMod
	hk_bchutil_ConvertBits            = bchutil.VerifConvertBits
	hk_bchutil_PackAddressData        = bchutil.VerifPackAddressData
	hk_bchutil_CheckEncodeCashAddress = bchutil.VerifCheckEncodeCashAddress
	hk_bchutil_CheckDecodeCashAddress = bchutil.VerifCheckDecodeCashAddress
	hk_bchutil_CharsetRev             = bchutil.VerifCharsetRev
)
