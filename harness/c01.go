package main

import (
	"bytes"
	"encoding/hex"
	"strings"
	"sync"

	"github.com/gcash/bchd/bchec"
	"github.com/gcash/bchd/chaincfg"
	"github.com/gcash/bchutil"
	"github.com/gcash/bchutil/base58"
)

var nets = []*chaincfg.Params{&chaincfg.MainNetParams, &chaincfg.TestNet3Params, &chaincfg.TestNet4Params,
	&chaincfg.ChipNetParams, &chaincfg.RegressionNetParams, &chaincfg.SimNetParams}

func netIdx(s string) *chaincfg.Params { return nets[atoi(s)] }

var collidingOnce sync.Once

func registerCollidingNet() {
	collidingOnce.Do(func() {
		p := chaincfg.RegressionNetParams // a copy
		p.Name = "verif-colliding"
		p.Net = 0x76657266
		p.LegacyPubKeyHashAddrID = 5
		p.LegacyScriptHashAddrID = 0
		p.CashAddressPrefix = "verifcoll"
		p.SlpAddressPrefix = "verifslp"
		p.HDPrivateKeyID = [4]byte{0x7a, 0x7a, 0x7a, 0x01}
		p.HDPublicKeyID = [4]byte{0x7a, 0x7a, 0x7a, 0x02}
		if err := chaincfg.Register(&p); err != nil {
			panic("harness: register colliding net: " + err.Error())
		}
	})
}

func addrErr(err error) string {
	switch err {
	case bchutil.ErrChecksumMismatch:
		return "checksum"
	case bchutil.ErrUnknownAddressType:
		return "unktype"
	case bchutil.ErrAddressCollision:
		return "collision"
	case bchutil.ErrUnknownFormat:
		return "unkformat"
	}
	return "other"
}

func addrKind(a bchutil.Address) string {
	switch a.(type) {
	case *bchutil.AddressPubKeyHash:
		return "pkh"
	case *bchutil.AddressScriptHash:
		return "sh"
	case *bchutil.AddressScriptHash32:
		return "sh32"
	case *bchutil.LegacyAddressPubKeyHash:
		return "lpkh"
	case *bchutil.LegacyAddressScriptHash:
		return "lsh"
	case *bchutil.AddressPubKey:
		return "pk"
	}
	return "unknown"
}

func netBits(a bchutil.Address) string {
	s := ""
	for _, n := range nets {
		s += b2s(a.IsForNet(n))
	}
	return s
}

// observation of a decoded address
func decObs(a bchutil.Address, err error) string {
	if err != nil {
		return "err," + addrErr(err)
	}
	if a == nil {
		return "err,nil"
	}
	return "ok," + addrKind(a) + "," + hx(a.ScriptAddress()) + "," + hs(a.EncodeAddress()) + "," + hs(a.String()) + "," + netBits(a)
}

func construct(kind string, net *chaincfg.Params, payload []byte) (bchutil.Address, error) {
	switch kind {
	case "pkh":
		return bchutil.NewAddressPubKeyHash(payload, net)
	case "sh":
		return bchutil.NewAddressScriptHashFromHash(payload, net)
	case "sh32":
		return bchutil.NewAddressScriptHash32FromHash(payload, net)
	case "slppkh":
		return bchutil.NewSlpAddressPubKeyHash(payload, net)
	case "slpsh":
		return bchutil.NewSlpAddressScriptHashFromHash(payload, net)
	case "slpsh32":
		return bchutil.NewSlpAddressScriptHash32FromHash(payload, net)
	case "lpkh":
		return bchutil.NewLegacyAddressPubKeyHash(payload, net)
	case "lsh":
		return bchutil.NewLegacyAddressScriptHashFromHash(payload, net)
	case "pk":
		return bchutil.NewAddressPubKey(payload, net)
	case "shs":
		return bchutil.NewAddressScriptHash(payload, net)
	case "sh32s":
		return bchutil.NewAddressScriptHash32(payload, net)
	case "lshs":
		return bchutil.NewLegacyAddressScriptHash(payload, net)
	}
	panic("harness: kind " + kind)
}

func isNilAddr(a bchutil.Address) bool {
	switch v := a.(type) {
	case *bchutil.AddressPubKeyHash:
		return v == nil
	case *bchutil.AddressScriptHash:
		return v == nil
	case *bchutil.AddressScriptHash32:
		return v == nil
	case *bchutil.LegacyAddressPubKeyHash:
		return v == nil
	case *bchutil.LegacyAddressScriptHash:
		return v == nil
	case *bchutil.AddressPubKey:
		return v == nil
	}
	return a == nil
}

// renderings of the string form that the property quantifies over
func renderings(kind string, net *chaincfg.Params, a bchutil.Address) []string {
	s := a.String()
	switch kind {
	case "lpkh", "lsh", "lshs":
		return []string{s}
	case "pk":
		return []string{s, strings.ToUpper(s)}
	}
	pre := net.CashAddressPrefix
	if strings.HasPrefix(kind, "slp") {
		pre = net.SlpAddressPrefix
	}
	return []string{s, strings.ToUpper(s), pre + ":" + s, strings.ToUpper(pre + ":" + s)}
}

// accessorObs: the typed accessors (Hash160 / Hash256 / PubKey / Format) agree with the script payload; "" when they do
func accessorObs(ad bchutil.Address) string {
	sa := ad.ScriptAddress()
	switch v := ad.(type) {
	case *bchutil.AddressPubKeyHash:
		if !bytes.Equal(v.Hash160()[:], sa) {
			return "!hash160"
		}
	case *bchutil.AddressScriptHash:
		if !bytes.Equal(v.Hash160()[:], sa) {
			return "!hash160"
		}
	case *bchutil.AddressScriptHash32:
		if !bytes.Equal(v.Hash256()[:], sa) {
			return "!hash256"
		}
	case *bchutil.LegacyAddressPubKeyHash:
		if !bytes.Equal(v.Hash160()[:], sa) {
			return "!hash160"
		}
	case *bchutil.LegacyAddressScriptHash:
		if !bytes.Equal(v.Hash160()[:], sa) {
			return "!hash160"
		}
	case *bchutil.AddressPubKey:
		var want []byte
		switch v.Format() {
		case bchutil.PKFUncompressed:
			want = v.PubKey().SerializeUncompressed()
		case bchutil.PKFCompressed:
			want = v.PubKey().SerializeCompressed()
		case bchutil.PKFHybrid:
			want = v.PubKey().SerializeHybrid()
		}
		if !bytes.Equal(want, sa) {
			return "!pubkey/format"
		}
	}
	return ""
}

func execAddr(c Case) string {
	a := c.Args
	switch c.Op {
	case "addr": // addr <kind> <net> <payload>
		net := netIdx(a[1])
		// the constructors get their argument as a slice with spare capacity (a script cut out of a larger buffer):
		// they must not write to it, not even behind its end
		orig := unhx(a[2])
		arg := withSpare(orig, 64)
		ad, err := construct(a[0], net, arg)
		if !unchanged(arg, orig) {
			return "ARGUMENT-MODIFIED:" + hx(arg[:cap(arg)])
		}
		if err != nil || isNilAddr(ad) {
			return "ctorerr"
		}
		out := []string{hs(ad.EncodeAddress()), hs(ad.String()), hx(ad.ScriptAddress()) + accessorObs(ad), netBits(ad)}
		for _, r := range renderings(a[0], net, ad) {
			d, err := bchutil.DecodeAddress(r, net)
			out = append(out, decObs(d, err))
		}
		return strings.Join(out, " ")
	case "conv": // conv <kind> <net> <hash> <target net>
		ad, err := construct(a[0], netIdx(a[1]), unhx(a[2]))
		if err != nil || isNilAddr(ad) {
			return "ctorerr"
		}
		tn := netIdx(a[3])
		tok := func(x bchutil.Address, err error) string {
			if err != nil {
				return "err," + addrErr(err)
			}
			return addrKind(x) + "," + hs(x.EncodeAddress()) + "," + netBits(x)
		}
		before := tok(ad, nil)
		s1, e1 := bchutil.ConvertCashToSlpAddress(ad, tn)
		var s2 bchutil.Address
		e2 := e1
		if e1 == nil {
			s2, e2 = bchutil.ConvertSlpToCashAddress(s1, tn)
		}
		s3, e3 := bchutil.ConvertSlpToCashAddress(ad, tn)
		res := tok(s1, e1) + " " + tok(s2, e2) + " " + tok(s3, e3)
		// the conversions return NEW addresses: the argument (and the first result, converted back above) still are
		// what they were
		if tok(ad, nil) != before || (e1 == nil && tok(s1, nil) != strings.Split(res, " ")[0]) {
			return res + " ARGUMENT-MODIFIED"
		}
		return res
	case "custnet": // custnet <prefix> <kind> <hash>: caller-defined network parameters that were never registered
		net := chaincfg.MainNetParams // a copy
		net.CashAddressPrefix = string(unhx(a[0]))
		var ad bchutil.Address
		var err error
		if a[1] == "pkh" {
			ad, err = bchutil.NewAddressPubKeyHash(unhx(a[2]), &net)
		} else {
			ad, err = bchutil.NewAddressScriptHashFromHash(unhx(a[2]), &net)
		}
		if err != nil {
			return "ctorerr"
		}
		f1 := ad.IsForNet(&net)
		str := ad.EncodeAddress()
		f2 := ad.IsForNet(&net) && ad.EncodeAddress() == str && ad.String() != ""
		f2 = f2 && ad.IsForNet(&net)
		d, err := bchutil.DecodeAddress(net.CashAddressPrefix+":"+str, &net)
		if err != nil {
			return hs(str) + " " + b2s(f1) + " " + b2s(f2) + " E"
		}
		f3 := d.IsForNet(&net)
		re := d.EncodeAddress()
		f4 := d.IsForNet(&net)
		return hs(str) + " " + b2s(f1) + " " + b2s(f2) + " " + b2s(f3) + " " + b2s(f4) + " " + b2s(re == str && !d.IsForNet(&chaincfg.TestNet3Params))
	case "pk2pkh": // pk2pkh <net> <serialized pubkey>
		pk, err := bchutil.NewAddressPubKey(unhx(a[1]), netIdx(a[0]))
		if err != nil {
			return "ctorerr"
		}
		h := pk.AddressPubKeyHash()
		return hx(h.ScriptAddress()) + "," + hs(h.EncodeAddress()) + "," + netBits(h)
	case "conc": // conc <k> <iters> <seed>: the constructors/encoders are pure functions; used from k goroutines they must agree with sequential use
		k, iters, seed := atoi(a[0]), atoi(a[1]), atou(a[2])
		mk := func(g, j int) string {
			sc := NewRng(seed+uint64(g)*1000003+uint64(j), "conc").Bytes(1 + (g+j)%40)
			net := nets[(g+j)%len(nets)]
			switch j % 4 {
			case 0:
				ad, _ := bchutil.NewAddressScriptHash(sc, net)
				return ad.EncodeAddress()
			case 1:
				ad, _ := bchutil.NewAddressScriptHash32(sc, net)
				return ad.EncodeAddress()
			case 2:
				ad, _ := bchutil.NewLegacyAddressScriptHash(sc, net)
				return ad.EncodeAddress()
			}
			ad, _ := bchutil.NewAddressPubKeyHash(bchutil.Hash160(sc), net)
			d, err := bchutil.DecodeAddress(ad.EncodeAddress(), net)
			if err != nil {
				return "err"
			}
			return d.EncodeAddress()
		}
		want := make([][]string, k)
		for g := 0; g < k; g++ {
			for j := 0; j < iters; j++ {
				want[g] = append(want[g], mk(g, j))
			}
		}
		bad := make([]int, k)
		done := make(chan bool)
		for g := 0; g < k; g++ {
			go func(g int) {
				defer func() {
					if e := recover(); e != nil {
						bad[g] += 1000000
					}
					done <- true
				}()
				for j := 0; j < iters; j++ {
					if mk(g, j) != want[g][j] {
						bad[g]++
					}
				}
			}(g)
		}
		tot := 0
		for g := 0; g < k; g++ {
			<-done
		}
		for _, b := range bad {
			tot += b
		}
		if tot > 0 {
			return "mismatch:" + itoa(tot)
		}
		return "ok"
	case "dec": // dec <net> <string>
		d, err := bchutil.DecodeAddress(string(unhx(a[1])), netIdx(a[0]))
		return decObs(d, err)
	case "collide": // collide <net> <string>: DecodeAddress after a network was registered whose P2PKH id is mainnet's P2SH
		// id (5) and whose P2SH id is mainnet's P2PKH id (0): both ids now name both kinds. Registration cannot be undone, so
		// these cases are the LAST ones a generator emits.
		registerCollidingNet()
		d, err := bchutil.DecodeAddress(string(unhx(a[1])), netIdx(a[0]))
		return decObs(d, err)
	case "pkfmt": // pkfmt <net> <serialized pubkey>: SetFormat to each of the three formats in turn, then back
		ad, err := bchutil.NewAddressPubKey(unhx(a[1]), netIdx(a[0]))
		if err != nil || ad == nil {
			return "ctorerr"
		}
		out := []string{itoa(int(ad.Format()))}
		for _, f := range []bchutil.PubKeyFormat{bchutil.PKFUncompressed, bchutil.PKFCompressed, bchutil.PKFHybrid, bchutil.PKFUncompressed} {
			ad.SetFormat(f)
			out = append(out, itoa(int(ad.Format()))+","+hx(ad.ScriptAddress())+","+hs(ad.EncodeAddress())+","+hs(ad.String())+","+hs(ad.AddressPubKeyHash().EncodeAddress())+accessorObs(ad))
		}
		return strings.Join(out, " ")
	case "pm":
		return u64s(hk_bchutil_PolyMod(unhx(a[0])))
	case "cb":
		b, err := hk_bchutil_ConvertBits(unhx(a[3]), uint(atoi(a[0])), uint(atoi(a[1])), a[2] == "1")
		if err != nil {
			return "err"
		}
		return "ok:" + hx(b)
	case "pack":
		b, err := hk_bchutil_PackAddressData(bchutil.AddressType(atoi(a[0])), unhx(a[1]))
		if err != nil {
			return "err"
		}
		return "ok:" + hx(b)
	case "cenc": // cenc <type> <prefix> <hash>
		return hs(hk_bchutil_CheckEncodeCashAddress(unhx(a[2]), string(unhx(a[1])), bchutil.AddressType(atoi(a[0]))))
	case "cdec", "csub": // cdec <string> ; csub <valid> <mutated>  (observation is the decode of the last arg)
		p, d, err := bchutil.DecodeCashAddress(string(unhx(a[len(a)-1])))
		if err == bchutil.ErrChecksumMismatch {
			return "err,checksum"
		} else if err != nil {
			return "err,other"
		}
		return "ok," + hs(p) + "," + hx(d)
	case "ccdec":
		d, p, t, err := hk_bchutil_CheckDecodeCashAddress(string(unhx(a[0])))
		if err == bchutil.ErrChecksumMismatch {
			return "err,checksum," + hs(p)
		} else if err == bchutil.ErrUnknownAddressType {
			return "err,unktype," + hs(p)
		} else if err != nil {
			return "err,other," + hs(p)
		}
		return "ok," + hs(p) + "," + hx(d) + "," + itoa(int(t))
	}
	panic("harness: unknown op " + c.Op)
}

// ---- the harness's own CashAddr encoder (written from the specification; independent of /repo)

const cashCharset = "qpzry9x8gf2tvdw0s3jn54khce6mua7l"

func specPolyMod(v []byte) uint64 {
	c := uint64(1)
	for _, d := range v {
		c0 := byte(c >> 35)
		c = ((c & 0x07ffffffff) << 5) ^ uint64(d)
		if c0&1 != 0 {
			c ^= 0x98f2bc8e61
		}
		if c0&2 != 0 {
			c ^= 0x79b76d99e2
		}
		if c0&4 != 0 {
			c ^= 0xf33e5fb3c4
		}
		if c0&8 != 0 {
			c ^= 0xae2eabe2a8
		}
		if c0&16 != 0 {
			c ^= 0x1e4f43e470
		}
	}
	return c ^ 1
}

func specPrefix(prefix string) []byte {
	r := []byte{}
	for i := 0; i < len(prefix); i++ {
		r = append(r, prefix[i]&0x1f)
	}
	return append(r, 0)
}

// specEncode5 returns payload+checksum symbols (values 0..31) for 5-bit payload `p5`
func specEncode5(prefix string, p5 []byte) []byte {
	enc := append(specPrefix(prefix), p5...)
	enc = append(enc, 0, 0, 0, 0, 0, 0, 0, 0)
	mod := specPolyMod(enc)
	out := append([]byte{}, p5...)
	for i := 0; i < 8; i++ {
		out = append(out, byte((mod>>uint(5*(7-i)))&0x1f))
	}
	return out
}

func symsToString(s []byte) string {
	b := make([]byte, len(s))
	for i, v := range s {
		b[i] = cashCharset[v&31]
	}
	return string(b)
}

// to5 regroups bytes into 5-bit symbols; padBits are the values of the padding bits (normally 0)
func to5(data []byte, padBits byte) []byte {
	var out []byte
	acc, bits := uint(0), uint(0)
	for _, b := range data {
		acc = acc<<8 | uint(b)
		bits += 8
		for bits >= 5 {
			bits -= 5
			out = append(out, byte(acc>>bits)&31)
		}
	}
	if bits > 0 {
		out = append(out, (byte(acc<<(5-bits))&31)|(padBits&(1<<(5-bits)-1)))
	}
	return out
}

var genHashes = func(r *Rng, n int) []byte {
	h := r.Bytes(n)
	switch r.Intn(8) {
	case 0:
		for i := range h {
			h[i] = 0
		}
	case 1:
		for i := range h {
			h[i] = 0xff
		}
	case 2:
		z := 1 + r.Intn(19)
		for i := 0; i < z && i < n; i++ {
			h[i] = 0
		}
	case 3:
		for i := range h {
			h[i] = 0
		}
		if n > 0 {
			k := r.Intn(n * 8)
			h[k/8] = 1 << uint(7-k%8)
		}
	}
	return h
}

func randPubKey(r *Rng) *bchec.PublicKey {
	k := r.Bytes(32)
	if r.Intn(4) == 0 {
		k = make([]byte, 32)
		k[31] = byte(1 + r.Intn(200))
	}
	_, pub := bchec.PrivKeyFromBytes(bchec.S256(), k)
	return pub
}

// pubKeyAvoiding: a compressed public key whose hex form contains none of the given hex digits, i.e. a string that
// is at the same time well-formed for another address format tried by DecodeAddress (cashaddr symbols exclude
// 'b' and '1'). The x coordinate is drawn digit by digit; about every second x lies on the curve.
func pubKeyAvoiding(r *Rng, avoid string) *bchec.PublicKey {
	digits := []byte{}
	for _, c := range []byte("0123456789abcdef") {
		if !strings.ContainsRune(avoid, rune(c)) {
			digits = append(digits, c)
		}
	}
	for {
		h := []byte{'0', byte(r.Pick('2', '3'))}
		for i := 0; i < 64; i++ {
			h = append(h, digits[r.Intn(len(digits))])
		}
		b, _ := hex.DecodeString(string(h))
		if pub, err := bchec.ParsePubKey(b, bchec.S256()); err == nil {
			return pub
		}
	}
}

// crossFormatPubKeys emits the constructor and decoder cases for such keys
func crossFormatPubKeys(r *Rng, tier string, e func(op, cls string, args ...string)) {
	n := 6
	if tier == "thorough" {
		n = 200
	}
	for _, avoid := range []string{"b1", "b1ace", "abcdef"} {
		for i := 0; i < n; i++ {
			pub := pubKeyAvoiding(r, avoid)
			h := hex.EncodeToString(pub.SerializeCompressed())
			for ni := range nets {
				e("addr", "pubkey-xformat", "pk", itoa(ni), hx(pub.SerializeCompressed()))
				e("dec", "pubkey-xformat", itoa(ni), hs(h))
				e("dec", "pubkey-xformat", itoa(ni), hs(strings.ToUpper(h)))
			}
		}
	}
}

func serPub(p *bchec.PublicKey, f int) []byte {
	switch f {
	case 0:
		return p.SerializeUncompressed()
	case 1:
		return p.SerializeCompressed()
	}
	return p.SerializeHybrid()
}

func init() {
	props["C01"] = &Prop{Gen: genC01, Exec: execAddr}
	props["C02"] = &Prop{Gen: genC02, Exec: execAddr}
	props["C03"] = &Prop{Gen: genC03, Exec: execC03}
}

func genC01(r *Rng, tier string, emit func(Case)) {
	e := func(op, cls string, args ...string) { emit(Case{op, cls, args}) }
	crossFormatPubKeys(r, tier, e)
	e("conc", "goroutines", "8", "1500", u64s(r.U64()&0xffff))
	n := 400
	if tier == "thorough" {
		n = 8000
	}
	// exhaustive single-bit sweep per kind on mainnet + one random other net
	for _, kind := range []string{"pkh", "sh", "sh32", "slppkh", "slpsh", "slpsh32", "lpkh", "lsh"} {
		ln := 20
		if strings.HasSuffix(kind, "32") {
			ln = 32
		}
		step := 7
		if tier == "thorough" {
			step = 1
		}
		for ni := range nets {
			if tier != "thorough" && ni != 0 && ni != 4 && ni != 5 {
				continue
			}
			for k := 0; k < ln*8; k += step {
				h := make([]byte, ln)
				h[k/8] = 1 << uint(7-k%8)
				e("addr", "bit:"+kind, kind, itoa(ni), hx(h))
			}
		}
	}
	for i := 0; i < n; i++ {
		ni := r.Intn(len(nets))
		for _, kind := range []string{"pkh", "sh", "slppkh", "slpsh", "lpkh", "lsh"} {
			e("addr", kind, kind, itoa(ni), hx(genHashes(r, 20)))
		}
		for _, kind := range []string{"sh32", "slpsh32"} {
			e("addr", kind, kind, itoa(ni), hx(genHashes(r, 32)))
		}
		// wrong lengths for the constructor guards
		wl := r.Pick(0, 1, 19, 21, 24, 31, 32, 33, 40, 20)
		e("addr", "wronglen", []string{"pkh", "sh", "sh32", "slppkh", "slpsh32", "lpkh", "lsh"}[r.Intn(7)], itoa(ni), hx(r.Bytes(wl)))
		// scripts
		sc := r.Bytes(r.Pick(0, 1, 23, 25, 35, 100, r.Intn(300)))
		e("addr", "script", []string{"shs", "sh32s", "lshs"}[r.Intn(3)], itoa(ni), hx(sc))
		// scripts that are themselves shaped like standard output scripts (P2SH, P2SH32, P2PKH, P2PK, a bare push of 20
		// or 32 bytes): the constructors hash the script, whatever it looks like
		if i%8 == 0 {
			h20, h32 := r.Bytes(20), r.Bytes(32)
			shaped := [][]byte{
				append(append([]byte{0xa9, 0x14}, h20...), 0x87),
				append(append([]byte{0xaa, 0x20}, h32...), 0x87),
				append(append([]byte{0x76, 0xa9, 0x14}, h20...), 0x88, 0xac),
				append(append([]byte{0x21, 0x02}, h32...), 0xac),
				append([]byte{0x14}, h20...),
				append([]byte{0x20}, h32...),
				h20, h32,
			}
			for _, ss := range shaped {
				for _, k := range []string{"shs", "sh32s", "lshs"} {
					e("addr", "script-shaped", k, itoa(ni), hx(ss))
				}
			}
		}
		// public keys
		pub := randPubKey(r)
		f := r.Intn(3)
		e("addr", "pubkey", "pk", itoa(ni), hx(serPub(pub, f)))
		if r.Intn(6) == 0 {
			bad := serPub(pub, f)
			bad[r.Intn(len(bad))] ^= byte(1 << uint(r.Intn(8)))
			e("addr", "pubkeybad", "pk", itoa(ni), hx(bad))
		}
		e("conv", "rand", []string{"pkh", "sh", "slppkh", "slpsh", "sh32", "lpkh", "pk"}[r.Intn(7)], itoa(ni), hx(func() []byte {
			if r.Intn(7) == 6 {
				return serPub(pub, f)
			}
			return genHashes(r, r.Pick(20, 20, 20, 32))
		}()), itoa(r.Intn(len(nets))))
		e("pk2pkh", "rand", itoa(ni), hx(serPub(pub, r.Intn(3))))
		if i%4 == 0 {
			e("pkfmt", "setformat", itoa(ni), hx(serPub(pub, r.Intn(3))))
		}
		// white-box kernels
		e("pm", "rand", hx(to5(r.Bytes(r.Intn(40)), 0)))
		d := r.Bytes(r.Intn(40))
		e("cb", "8to5", "8", "5", "1", hx(d))
		d5 := to5(d, 0)
		e("cb", "5to8", "5", "8", "0", hx(d5))
		fb, tb := 1+r.Intn(8), 1+r.Intn(8)
		e("cb", "widths", itoa(fb), itoa(tb), b2s(r.Bool()), hx(r.Bytes(r.Intn(10))))
		e("pack", "rand", itoa(r.Pick(0, 1, 1, 2, 3)), hx(r.Bytes(r.Pick(20, 20, 24, 28, 32, 40, 48, 52, 56, 64, 19, 16, 0, 21))))
		e("cenc", "rand", itoa(r.Pick(0, 1)), hs(nets[ni].CashAddressPrefix), hx(r.Bytes(r.Pick(20, 32, 20, 24))))
	}
}

func validCash(r *Rng, prefix string, version byte, hash []byte, padBits byte) string {
	return symsToString(specEncode5(prefix, to5(append([]byte{version}, hash...), padBits)))
}

func caseVariant(r *Rng, s string) string {
	switch r.Intn(5) {
	case 0:
		return strings.ToUpper(s)
	case 1: // mixed case
		b := []byte(s)
		for i := range b {
			if r.Bool() && b[i] >= 'a' && b[i] <= 'z' {
				b[i] -= 32
			}
		}
		return string(b)
	}
	return s
}

func genC02(r *Rng, tier string, emit func(Case)) {
	e := func(op, cls string, args ...string) { emit(Case{op, cls, args}) }
	crossFormatPubKeys(r, tier, e)
	prefixes := []string{"bitcoincash", "simpleledger", "bchtest", "slptest", "bchreg", "slpreg", "bchsim", "foo", "bitcoincas"}
	lens := []int{0, 1, 19, 20, 21, 24, 28, 31, 32, 33, 40, 48, 64, 65}
	if tier == "thorough" {
		lens = nil
		for i := 0; i <= 65; i++ {
			lens = append(lens, i)
		}
	}
	// version byte x payload length grid, valid checksum
	for v := 0; v < 256; v++ {
		for _, ln := range lens {
			reps := 1
			if tier == "thorough" {
				reps = 3
			}
			for k := 0; k < reps; k++ {
				ni := r.Intn(len(nets))
				pre := prefixes[r.Intn(len(prefixes))]
				if r.Intn(3) > 0 {
					pre = nets[ni].CashAddressPrefix
					if r.Bool() && nets[ni].SlpAddressPrefix != "" {
						pre = nets[ni].SlpAddressPrefix
					}
				}
				s := validCash(r, pre, byte(v), r.Bytes(ln), 0)
				full := pre + ":" + s
				switch r.Intn(3) {
				case 0:
					e("dec", "grid:noprefix", itoa(ni), hs(caseVariant(r, s)))
				default:
					e("dec", "grid:prefix", itoa(ni), hs(caseVariant(r, full)))
				}
			}
		}
	}
	n := 600
	if tier == "thorough" {
		n = 15000
	}
	vers := []byte{0x00, 0x08, 0x0b, 0x00, 0x08, 0x0b, 0x01, 0x09, 0x03, 0x10, 0x78, 0x80, 0xf8}
	for i := 0; i < n; i++ {
		ni := r.Intn(len(nets))
		net := nets[ni]
		pre := net.CashAddressPrefix
		if r.Intn(3) == 0 {
			pre = net.SlpAddressPrefix
		}
		if r.Intn(8) == 0 {
			pre = prefixes[r.Intn(len(prefixes))]
		}
		v := vers[r.Intn(len(vers))]
		ln := 20
		if v&7 == 3 {
			ln = 32
		}
		if r.Intn(10) == 0 {
			ln = r.Pick(20, 32, 24, 19, 21)
		}
		h := r.Bytes(ln)
		// valid
		s := validCash(r, pre, v, h, 0)
		e("dec", "valid", itoa(ni), hs(caseVariant(r, s)))
		e("dec", "validprefix", itoa(ni), hs(caseVariant(r, pre+":"+s)))
		e("ccdec", "valid", hs(pre+":"+s))
		e("cdec", "valid", hs(pre+":"+s)) // the public entry point (no hook needed)
		// non-zero padding bits with valid checksum
		e("dec", "padding", itoa(ni), hs(pre+":"+validCash(r, pre, v, h, byte(1+r.Intn(31)))))
		// an extra all-zero symbol (over-long padding) with valid checksum
		p5 := append(to5(append([]byte{v}, h...), 0), 0)
		e("dec", "extrasym", itoa(ni), hs(pre+":"+symsToString(specEncode5(pre, p5))))
		// checksum computed for another prefix
		other := prefixes[r.Intn(len(prefixes))]
		e("dec", "foreignsum", itoa(ni), hs(pre+":"+validCash(r, other, v, h, 0)))
		e("dec", "foreignsum-noprefix", itoa(ni), hs(validCash(r, other, v, h, 0)))
		// double prefix, prefix of other net, digits in prefix, empty prefix
		e("dec", "doubleprefix", itoa(ni), hs(pre+":"+pre+":"+s))
		// one substituted char
		b := []byte(pre + ":" + s)
		k := len(pre) + 1 + r.Intn(len(s))
		b[k] = cashCharset[r.Intn(32)]
		e("dec", "subst", itoa(ni), hx(b))
		b2 := []byte(s)
		b2[r.Intn(len(b2))] = []byte("bio1 -_\xe2\x84\xaa\x80K")[r.Intn(11)]
		e("dec", "badchar", itoa(ni), hx(b2))
		if i%4 == 0 {
			e("dec", "utf8", itoa(ni), hs(utf8Variant(r, s)))
			e("dec", "utf8", itoa(ni), hs(utf8Variant(r, pre+":"+s)))
		}
		// kelvin sign in place of k (regression for fix f8a0c20)
		if strings.Contains(s, "k") {
			e("dec", "kelvin", itoa(ni), hs(strings.Replace(s, "k", "K", 1)))
		}
		// legacy base58check over all version bytes and lengths
		ver := byte(r.Intn(256))
		if r.Bool() {
			ver = []byte{0, 5, 63, 111, 123, 196, 128, 239}[r.Intn(8)]
		}
		pl := r.Bytes(r.Pick(20, 20, 20, 0, 1, 19, 21, 32, r.Intn(41)))
		ls := base58.CheckEncode(pl, ver)
		e("dec", "legacy", itoa(ni), hs(ls))
		if i%16 == 0 {
			// caller-defined, unregistered network parameters: lower-case prefixes work like any network; with a prefix
			// that is not lower case the constructors still work and IsForNet is stable, only decoding refuses
			for _, pfx := range []string{"bchx", "x", "testprefix", "BCHX", "bchX"} {
				for _, kind := range []string{"pkh", "sh"} {
					e("custnet", "unregistered", hs(pfx), kind, hx(r.Bytes(20)))
				}
			}
		}
		if i%4 == 0 {
			// valid strings of every format wrapped in white space / a NUL byte: not the canonical string, rejected
			for _, w := range []string{" ", "\t", "\n", "\r\n", "\x00"} {
				for _, v := range []string{ls, s, pre + ":" + s} {
					e("dec", "wrapped", itoa(ni), hs(w+v))
					e("dec", "wrapped", itoa(ni), hs(v+w))
				}
			}
		}
		lb := base58.Decode(ls)
		lb[r.Intn(len(lb))] ^= byte(1 << uint(r.Intn(8)))
		e("dec", "legacybad", itoa(ni), hs(base58.Encode(lb)))
		if r.Intn(4) == 0 {
			e("dec", "legacy1", itoa(ni), hs("1"+ls))
			e("dec", "legacy-utf8", itoa(ni), hs(utf8Variant(r, ls)))
		}
		// hex public keys
		pub := randPubKey(r)
		f := r.Intn(3)
		sp := serPub(pub, f)
		hxs := hex.EncodeToString(sp)
		e("dec", "pubkey", itoa(ni), hs(caseVariant(r, hxs)))
		sp2 := append([]byte{}, sp...)
		switch r.Intn(5) {
		case 0:
			sp2[0] = byte(r.Intn(256))
		case 1:
			sp2[0] ^= 1
		case 2:
			sp2[len(sp2)-1] ^= 1
		case 3:
			for j := 1; j < 33; j++ {
				sp2[j] = 0xff
			}
		case 4:
			sp2[1+r.Intn(len(sp2)-1)] ^= byte(1 << uint(r.Intn(8)))
		}
		e("dec", "pubkeybad", itoa(ni), hs(hex.EncodeToString(sp2)))
		if r.Intn(10) == 0 {
			bs := []byte(hxs)
			bs[r.Intn(len(bs))] = 'g'
			e("dec", "pubkeynothex", itoa(ni), hx(bs))
		}
		// byte sweep: one character of an accepted string replaced by EVERY other byte value (catches any
		// byte-level confusion in case folding / charset lookup: control bytes, high bit, '@', DEL, ...)
		if i%40 == 0 {
			forms := []string{s, pre + ":" + s, ls, hxs}
			f := forms[r.Intn(len(forms))]
			for rep := 0; rep < 2; rep++ {
				k := r.Intn(len(f))
				for b := 0; b < 256; b++ {
					if byte(b) == f[k] {
						continue
					}
					m := []byte(f)
					m[k] = byte(b)
					e("dec", "bytesweep", itoa(ni), hx(m))
				}
			}
		}
		// raw malformed
		raw := r.Bytes(r.Intn(80))
		if r.Bool() {
			for j := range raw {
				raw[j] = cashCharset[raw[j]&31]
			}
		}
		e("dec", "raw", itoa(ni), hx(raw))
		e("dec", "short", itoa(ni), hs((pre + ":" + s)[:r.Intn(len(pre)+4)]))
	}
	// LAST (registration is permanent for the process): legacy addresses of every version byte class, after a network
	// was registered that makes ids 0 and 5 ambiguous
	for i := 0; i < 12; i++ {
		ver := byte(r.Pick(0, 5, 0, 5, 111, 196, 63, 123, 7))
		ls := base58.CheckEncode(r.Bytes(r.Pick(20, 20, 20, 21, 32)), ver)
		e("collide", "registered-collision", itoa(r.Intn(len(nets))), hs(ls))
	}
}
