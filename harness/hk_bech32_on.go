//go:build !verif_nohook_bech32

package main

// Hooks of package bech32 (compiled from /repo with -tags verif).
import "github.com/gcash/bchutil/bech32"

var (
	hk_bech32_Polymod = bech32.VerifPolymod
	hk_bech32_Charset = bech32.VerifCharset
	hk_bech32_Gen     = bech32.VerifGen
)
